#!/usr/bin/env python3
"""vx: mechanical extraction of real functions from /repo into one Verus file per unit.

The extraction is driven by a sidecar `.vspec` (contracts/), uses the byte-range index produced
by the syn-based `vx` binary, and applies only the enumerated rewrite rules (DESIGN.md section 2.1).
Every applied rewrite is logged; every emitted line is mapped back to its source line.
"""
import bisect
import hashlib
import json
import os
import re
import subprocess
import sys
import time

VERIF = os.path.dirname(os.path.dirname(os.path.abspath(__file__)))
VX_BIN = os.path.join(VERIF, "vx", "target", "release", "vx")
TRACING = {"trace", "debug", "info", "warn", "error", "event"}


class Undecided(Exception):
    """Raised when the machinery cannot decide (lost anchor, refused rewrite, ...): exit 2."""


# --------------------------------------------------------------------------------------------
# vspec parsing
# --------------------------------------------------------------------------------------------

def parse_vspec(path):
    lines = open(path).read().split("\n")
    i = 0
    spec = {"unit": None, "sources": {}, "shims": [], "prelude": [], "top": [], "entries": [], "lemmas": [],
            "path": path}
    cur_impl = None
    cur_fn = None

    def read_block(first_line_rest):
        nonlocal i
        # first_line_rest: text after '<<<' on the opening line
        out = []
        if first_line_rest.strip().endswith(">>>"):
            return first_line_rest.strip()[:-3]
        if first_line_rest.strip():
            out.append(first_line_rest)
        while True:
            i += 1
            if i >= len(lines):
                raise Undecided(f"{path}: unterminated <<< block")
            l = lines[i]
            if l.strip() == ">>>":
                break
            out.append(l)
        return "\n".join(out)

    while i < len(lines):
        raw = lines[i]
        l = raw.strip()
        if not l or l.startswith("#"):
            i += 1
            continue
        head, _, rest = l.partition(" ")
        rest = rest.strip()
        blk = None
        if "<<<" in rest:
            before, _, after = rest.partition("<<<")
            rest = before.strip()
            blk = read_block(after)
        if head == "include":
            inc = parse_vspec(os.path.join(os.path.dirname(path), rest))
            for a, pth in inc["sources"].items():
                if a in spec["sources"] and spec["sources"][a] != pth:
                    raise Undecided(f"{path}: source alias clash {a}")
                spec["sources"][a] = pth
            for sh in inc["shims"]:
                if sh not in spec["shims"]:
                    spec["shims"].append(sh)
            spec["top"].extend(inc["top"])
            spec["prelude"].extend(inc["prelude"])
            spec["entries"].extend(inc["entries"])
            spec["lemmas"].extend(inc["lemmas"])
        elif head == "unit":
            spec["unit"] = rest
        elif head == "source":
            a, p = rest.split()
            spec["sources"][a] = p
        elif head == "shim":
            spec["shims"].append(rest)
        elif head == "prelude":
            spec["prelude"].append(blk)
        elif head == "top":
            spec["top"].append(blk)
        elif head == "lemmas":
            spec["lemmas"].append(blk)
        elif head == "item":
            parts = rest.split()
            ent = {"type": "item", "src": parts[0], "kind": parts[1], "name": parts[2], "opts": parts[3:],
                   "derive": None}
            for o in parts[3:]:
                if o.startswith("vattr="):
                    ent.setdefault("vattrs", []).append(o[len("vattr="):])
                if o.startswith("derive="):
                    ent["derive"] = o[len("derive="):]
                if o.startswith("default_variant="):
                    ent["default_variant"] = o[len("default_variant="):]
                if o.startswith("eval="):
                    ent["eval"] = o[len("eval="):]
                if o.startswith("bytes="):
                    ent["bytes"] = o[len("bytes="):]
            spec["entries"].append(ent)
        elif head == "bitflags":
            # bitflags <src> <Name>: the `bitflags! { struct Name: u8 { const A = lit; .. } }` invocation (rule R20)
            parts = rest.split()
            spec["entries"].append({"type": "bitflags", "src": parts[0], "name": parts[1]})
        elif head == "impl":
            parts = rest.split()
            cur_impl = {"type": "impl", "src": parts[0], "name": parts[1], "trait": None, "fns": [], "extra": [],
                        "consts": [], "header": None, "nth": None}
            for k, tok in enumerate(parts[2:]):
                if tok == "for":
                    cur_impl["trait"] = parts[2:][k + 1]
                if tok.startswith("nth="):
                    cur_impl["nth"] = int(tok[4:])
            spec["entries"].append(cur_impl)
        elif head == "trait":
            parts = rest.split()
            cur_impl = {"type": "trait", "src": parts[0], "name": parts[1], "fns": [], "extra": [], "consts": [],
                        "header": None, "nth": None, "trait": None}
            spec["entries"].append(cur_impl)
        elif head == "endtrait":
            cur_impl = None
        elif head == "header":
            # replace the impl header (rare: where Verus cannot take the real bounds)
            cur_impl["header"] = blk
        elif head == "extra":
            cur_impl["extra"].append(blk)
        elif head == "const":
            cur_impl["consts"].append(rest)
        elif head == "endimpl":
            cur_impl = None
        elif head == "fn":
            parts = rest.split()
            if cur_impl is not None:
                cur_fn = {"type": "fn", "name": parts[0], "src": cur_impl["src"]}
                cur_impl["fns"].append(cur_fn)
            else:
                cur_fn = {"type": "fn", "src": parts[0], "name": parts[1]}
                spec["entries"].append(cur_fn)
            cur_fn.update({"ret": None, "r1": [], "r2": [], "r5": False, "contract": None, "loops": {},
                           "proofs": [], "dead": [], "nocanary": False, "sig": None, "external_body": False,
                           "r9": [], "subst": [], "r4": False})
        elif head == "endfn":
            cur_fn = None
        elif head == "ret":
            cur_fn["ret"] = rest
        elif head == "r1":
            cur_fn["r1"] = "all" if rest == "all" else [int(x) for x in rest.split(",")]
        elif head == "r2":
            cur_fn["r2"] = [int(x) for x in rest.split(",")]
        elif head == "r5":
            cur_fn["r5"] = True
        elif head == "r4":
            cur_fn["r4"] = True
        elif head == "r12":
            cur_fn["r12"] = True
        elif head == "r24":
            cur_fn["r24"] = True
        elif head == "r27":
            # r27 <loop ordinal>...: `for X in V { B }` with V an identifier of type `&mut Vec<T>` -> indexed while loop (rule R27)
            cur_fn.setdefault("r27", []).extend(int(x) for x in rest.split())
        elif head == "r28":
            cur_fn["r28"] = True
        elif head == "r26":
            # r26 <loop ordinal> <elem type>: `for X in SET { B }` over a by-value HashSet -> indexed while loop over its elements (rule R26)
            parts = rest.split()
            cur_fn.setdefault("r26", {})[int(parts[0])] = parts[1]
        elif head == "r25":
            # r25 <ordinal> <<< proof text >>>: desugar the <ordinal>-th `E?` of the function (rule R25), with a proof block on its Err exit
            cur_fn.setdefault("r25", {})[int(rest)] = blk or ""
        elif head == "r15":
            cur_fn.setdefault("r15", []).append(rest)
        elif head == "r17":
            cur_fn["r17"] = True
        elif head == "r18":
            cur_fn["r18"] = True
        elif head == "r19":
            cur_fn["r19"] = True
        elif head == "r22":
            cur_fn.setdefault("r22", []).extend(rest.split())
        elif head == "r23":
            cur_fn.setdefault("r23", []).extend(rest.split())
        elif head == "fnattr":
            cur_fn.setdefault("fnattrs", []).append(rest)
        elif head == "r9":
            cur_fn["r9"] = [int(x) for x in rest.split(",")] if rest else "all"
        elif head == "contract":
            cur_fn["contract"] = blk
        elif head == "loop":
            cur_fn["loops"][int(rest)] = blk
        elif head == "proof":
            m = re.match(r'(before|after)\s+"(.*)"\s*(#(\d+))?\s*(\+(\d+))?$', rest)
            if not m:
                raise Undecided(f"{path}:{i+1}: bad proof line")
            cur_fn["proofs"].append({"where": m.group(1), "anchor": m.group(2), "text": blk,
                                     "nth": int(m.group(4)) if m.group(4) else None,
                                     "plus": int(m.group(6)) if m.group(6) else 0})
        elif head == "dead":
            # dead "<exact inner text of a block>" [#n]: that block is unreachable under the contracts (its canary must verify)
            m = re.match(r'"(.*)"\s*(#(\d+))?$', rest)
            cur_fn["dead"].append((m.group(1), int(m.group(3)) if m.group(3) else 0))
        elif head == "nocanary":
            cur_fn["nocanary"] = True
        elif head == "external_body":
            cur_fn["external_body"] = True
        else:
            raise Undecided(f"{path}:{i+1}: unknown directive {head!r}")
        i += 1
    if not spec["unit"]:
        raise Undecided(f"{path}: no unit name")
    return spec


# --------------------------------------------------------------------------------------------
# source index
# --------------------------------------------------------------------------------------------

class Source:
    def __init__(self, repo, rel):
        self.rel = rel
        self.path = os.path.join(repo, rel)
        if not os.path.exists(self.path):
            raise Undecided(f"source file missing: {rel}")
        self.bytes = open(self.path, "rb").read()
        r = subprocess.run([VX_BIN, self.path], capture_output=True, text=True)
        if r.returncode != 0:
            raise Undecided(f"vx index failed on {rel}: {r.stderr.strip()}")
        self.index = json.loads(r.stdout)[0]
        self.nl = [0]
        for k, b in enumerate(self.bytes):
            if b == 10:
                self.nl.append(k + 1)

    def line_of(self, off):
        return bisect.bisect_right(self.nl, off)

    def text(self, a, b):
        return self.bytes[a:b].decode("utf-8")

    def find_items(self, kind, name, items=None):
        out = []
        for it in (self.index["items"] if items is None else items):
            if it["kind"] == kind and it.get("name") == name:
                out.append(it)
            if it["kind"] == "mod" and it["name"] != "tests":
                out.extend(self.find_items(kind, name, it["items"]))
        return out

    def find_impls(self, name, trait, items=None):
        out = []
        for it in (self.index["items"] if items is None else items):
            if it["kind"] == "impl" and it["name"] == name and it.get("trait") == trait:
                out.append(it)
            if it["kind"] == "mod" and it["name"] != "tests":
                out.extend(self.find_impls(name, trait, it["items"]))
        return out


# --------------------------------------------------------------------------------------------
# emission with line map
# --------------------------------------------------------------------------------------------

class Emitter:
    def __init__(self):
        self.segs = []  # (text, origin) origin: None | ("src", Source, offset) | ("spec", dict)

    def raw(self, text, origin=None):
        if text:
            self.segs.append((text, origin))

    def finish(self):
        """returns (text, line_origin list indexed by 0-based output line)"""
        out = []
        origins = []  # per output line: list of origins seen on that line
        cur = []
        for text, origin in self.segs:
            parts = text.split("\n")
            off = 0
            for k, p in enumerate(parts):
                if k > 0:
                    origins.append(cur)
                    cur = []
                if p.strip():
                    if origin is not None and origin[0] == "src":
                        cur.append(("src", origin[1], origin[2] + off))
                    elif origin is not None:
                        cur.append(origin)
                off += len(p.encode("utf-8")) + 1
            out.append(text)
        origins.append(cur)
        return "".join(out), origins


def apply_edits(src, a, b, edits, em, note=None):
    """emit src bytes [a,b) with edits [(s,e,replacement,tag)] applied (non-overlapping)."""
    edits = sorted(edits, key=lambda e: (e[0], e[1]))
    pos = a
    for (s, e, rep, tag) in edits:
        if s < pos:
            raise Undecided(f"overlapping rewrites at byte {s} in {src.rel} ({tag})")
        if s > pos:
            em.raw(src.text(pos, s), ("src", src, pos))
        if rep:
            if isinstance(rep, tuple):  # spec text with label info
                em.raw(rep[0], rep[1])
            else:
                em.raw(rep, ("rw", tag))
        pos = e
    if pos < b:
        em.raw(src.text(pos, b), ("src", src, pos))


def privatise(text):
    """shims are written with `pub`/`open`; the generated crate is one private module (rule R7), so drop them."""
    text = re.sub(r"(?m)^(\s*)pub\s+(?=(open\s+|closed\s+|uninterp\s+)?(spec|proof|axiom|broadcast|exec)\b|fn\b|struct\b|enum\b|trait\b|const\b|type\b)", r"\1", text)
    text = re.sub(r"(?m)^(\s*)(open|closed)\s+(?=spec\b)", r"\1", text)
    text = re.sub(r"(?m)^(\s*)pub\s+(?=\w+\s*:)", r"\1", text)
    return text


LABEL_RE = re.compile(r"//@\s*([A-Za-z0-9_:.\-\[\],]+)")


class UnitGen:
    def __init__(self, spec, repo, canary=False):
        self.spec = spec
        self.repo = repo
        self.canary = canary
        self.sources = {a: Source(repo, p) for a, p in spec["sources"].items()}
        self.rewrites = []  # log
        self.functions = []  # functions under contract
        self.items = []
        self.canaries = []  # (id, fn, src_line, dead)
        self.ncanary = 0
        self.labels = []  # all labels defined

    # ---- helpers
    def _strip_attrs_vis(self, src, node, edits, keep_derive=None, what=""):
        for a in node.get("attrs", []):
            s, e = a["range"]
            edits.append((s, e, "", "R3"))
            if a["path"] not in ("doc",):
                self.rewrites.append({"rule": "R3", "what": f"drop #[{a['path']}..] on {what}",
                                      "file": src.rel, "line": src.line_of(s)})
        v = node.get("vis")
        if v:
            edits.append((v[0], v[1], "", "R7"))

    def _spec_text(self, text, fn_name, kind):
        """returns list of (line_text, origin) with label bookkeeping"""
        lines = text.split("\n")
        # a label applies to its own line and preceding unlabelled lines back to previous label
        labs = [None] * len(lines)
        pending = []
        for k, l in enumerate(lines):
            m = LABEL_RE.search(l)
            pending.append(k)
            if m:
                for j in pending:
                    labs[j] = m.group(1)
                pending = []
                self.labels.append({"fn": fn_name, "label": m.group(1), "kind": kind})
        return lines, labs

    def _emit_spec(self, text, fn_name, kind):
        lines, labs = self._spec_text(text, fn_name, kind)
        segs = []
        for l, lab in zip(lines, labs):
            segs.append((l + "\n", ("spec", {"fn": fn_name, "label": lab, "kind": kind})))
        return segs

    def _fn_edits(self, src, fnode, fs, edits, qual):
        """collect edits for one function per its spec `fs`"""
        self._strip_attrs_vis(src, fnode, edits, what=f"fn {qual}")
        sig = fnode["sig"]
        blk = fnode["block"]
        if blk is None:
            raise Undecided(f"fn {qual} has no body")
        nodes = fnode["nodes"]
        # R8: name the return value
        if fs["ret"]:
            if sig["ret"] is None:
                raise Undecided(f"fn {qual}: 'ret' given but function returns ()")
            s, e = sig["ret"]
            edits.append((s, s, f"({fs['ret']}: ", "R8"))
            edits.append((e, e, ")", "R8"))
            self.rewrites.append({"rule": "R8", "what": f"name return value `{fs['ret']}` of {qual}",
                                  "file": src.rel, "line": src.line_of(s)})
        # R10: wildcard parameter `_: T` -> `_vx_argN: T` (Verus requires identifier parameters)
        for k, inp in enumerate(sig["inputs"]):
            if not inp["receiver"] and src.text(*inp["pat"]).strip() == "_":
                edits.append((inp["pat"][0], inp["pat"][1], f"_vx_arg{k}", "R10"))
                self.rewrites.append({"rule": "R10", "what": f"wildcard parameter {k} of {qual} named _vx_arg{k}",
                                      "file": src.rel, "line": src.line_of(inp["pat"][0])})
        # R15: by-value generic writer parameter `mut w: W` -> `w: &mut W` (callers pass `&mut place`; std forwards
        # `impl Write for &mut W`), so that the effect on the underlying writer can be stated with old/final
        for pname in fs.get("r15", []):
            hit = False
            for inp in sig["inputs"]:
                if inp["receiver"]:
                    continue
                ptxt = src.text(*inp["pat"]).strip()
                if ptxt in (pname, "mut " + pname):
                    ty = src.text(*inp["ty"]).strip()
                    if not re.fullmatch(r"[A-Z]\w*", ty):
                        raise Undecided(f"fn {qual}: R15 refused (parameter {pname} has type {ty!r}, not a bare type parameter)")
                    edits.append((inp["pat"][0], inp["pat"][1], pname, "R15"))
                    edits.append((inp["ty"][0], inp["ty"][0], "&mut ", "R15"))
                    self.rewrites.append({"rule": "R15", "what": f"parameter `{ptxt}: {ty}` -> `{pname}: &mut {ty}` in {qual}",
                                          "file": src.rel, "line": src.line_of(inp["pat"][0])})
                    hit = True
            if not hit:
                raise Undecided(f"fn {qual}: R15 parameter {pname} not found (lost anchor)")
        # R23: by-value parameter `mut x: T` of an async fn -> `x: T` with `let mut x = x;` as first statement (what a `mut`
        # parameter binding means; the installed Verus loses the `mut` of parameters when it lowers an async fn)
        for pname in fs.get("r23", []):
            hit = False
            for inp in sig["inputs"]:
                if inp["receiver"]:
                    continue
                if src.text(*inp["pat"]).strip() == "mut " + pname:
                    edits.append((inp["pat"][0], inp["pat"][1], pname, "R23"))
                    edits.append((blk[0] + 1, blk[0] + 1, f" let mut {pname} = {pname};", "R23"))
                    self.rewrites.append({"rule": "R23", "what": f"parameter `mut {pname}` -> `{pname}` + `let mut {pname} = {pname};` in {qual}",
                                          "file": src.rel, "line": src.line_of(inp["pat"][0])})
                    hit = True
            if not hit:
                raise Undecided(f"fn {qual}: R23 parameter `mut {pname}` not found (lost anchor)")
        # R4: Pin<&mut Self> receiver of an Unpin type -> &mut self
        if fs.get("r4"):
            recv = [i for i in sig["inputs"] if i["receiver"]]
            if not recv:
                raise Undecided(f"fn {qual}: R4 requested but no receiver")
            rtxt = src.text(*recv[0]["range"])
            if "Pin<&mut Self>" not in rtxt.replace(" ", "").replace("Pin<&mutSelf>", "Pin<&mut Self>"):
                raise Undecided(f"fn {qual}: R4 refused (receiver is {rtxt!r})")
            edits.append((recv[0]["range"][0], recv[0]["range"][1], "&mut self", "R4"))
            self.rewrites.append({"rule": "R4", "what": f"receiver `{rtxt}` -> `&mut self` in {qual} (type is Unpin)",
                                  "file": src.rel, "line": src.line_of(recv[0]["range"][0])})
        # R3: tracing macros, attributes inside bodies
        for n in nodes:
            if n["kind"] == "macro" and n["path"].split("::")[-1] in TRACING and n["is_stmt"]:
                s, e = n["stmt_range"]
                edits.append((s, e, "", "R3"))
                self.rewrites.append({"rule": "R3", "what": f"drop {n['path']}! statement in {qual}",
                                      "file": src.rel, "line": src.line_of(s)})
            elif n["kind"] == "macro" and n["path"].split("::")[-1] in TRACING:
                raise Undecided(f"fn {qual}: tracing macro in expression position")
            if n["kind"] == "attr" and blk[0] <= n["range"][0] < blk[1]:
                s, e = n["range"]
                edits.append((s, e, "", "R3"))
        # R5: format!
        if fs["r5"]:
            for n in nodes:
                if n["kind"] == "macro" and n["path"] == "format":
                    s, e = n["range"]
                    edits.append((s, e, "fmt_opaque()", "R5"))
                    self.rewrites.append({"rule": "R5", "what": f"format!(..) -> fmt_opaque() in {qual}",
                                          "file": src.rel, "line": src.line_of(s)})
        # R12: M.entry(K).or_default() -> vx_entry_or_default(&mut M, K)   (definition of Entry::or_default)
        if fs.get("r12"):
            for n in nodes:
                if n["kind"] == "entry_or_default":
                    s0, e0 = n["range"]
                    ms, me = n["map"]
                    ks, ke = n["key"]
                    # a field place (`self.m`) is borrowed directly, a `&mut` binding is reborrowed (a wrong guess does not type-check)
                    edits.append((s0, ms, "vx_entry_or_default(&mut " + ("" if "." in src.text(ms, me) else "*"), "R12"))
                    edits.append((me, ks, ", ", "R12"))
                    edits.append((ke, e0, ")", "R12"))
                    self.rewrites.append({"rule": "R12", "what": f"`{src.text(ms, me)}.entry(k).or_default()` -> vx_entry_or_default(&mut map, k) in {qual}",
                                          "file": src.rel, "line": src.line_of(s0)})
        # R24: `if let Entry::Occupied(mut X) = M.entry(K) { ..X.get_mut()..X.get()..X.remove().. } [else ..]` with M and K plain
        # identifiers (M a `&mut HashMap` binding, K a Copy key) -> `if M.contains_key(&K) { ..vx_occupied_get_mut(&mut *M, &K)..
        # vx_occupied_get(&*M, &K)..vx_occupied_remove(&mut *M, &K).. }`: the definition of `Entry::Occupied` (the key is present)
        # and of OccupiedEntry::{get_mut, get, remove} (the value stored under that key / take it out). Avoids vstd's Entry specs,
        # whose get_mut/get/remove sequence is inconsistent. Refused when the entry variable is used in any other way.
        if fs.get("r24"):
            k24 = 0
            for n in nodes:
                if n["kind"] != "occupied_entry" or n["in_closure"]:
                    continue
                if n["other_uses"]:
                    raise Undecided(f"fn {qual}: R24 refused (entry variable `{n['var']}` used other than by get_mut()/get()/remove())")
                M, K = n["map"], n["key"]
                cs, ce = n["cond"]
                edits.append((cs, ce, f"{M}.contains_key(&{K})", "R24"))
                for c in n["calls"]:
                    rep = {"get_mut": f"vx_occupied_get_mut(&mut *{M}, &{K})", "get": f"vx_occupied_get(&*{M}, &{K})",
                           "remove": f"vx_occupied_remove(&mut *{M}, &{K})"}[c["method"]]
                    edits.append((c["range"][0], c["range"][1], rep, "R24"))
                k24 += 1
                self.rewrites.append({"rule": "R24", "what": f"`if let Entry::Occupied(mut {n['var']}) = {M}.entry({K})` -> `if {M}.contains_key(&{K})`, "
                                      f"{len(n['calls'])} use(s) of the entry -> vx_occupied_*(&mut *{M}, &{K}) in {qual}",
                                      "file": src.rel, "line": src.line_of(cs)})
            if k24 == 0:
                raise Undecided(f"fn {qual}: R24 requested but no `if let Entry::Occupied(mut x) = m.entry(k)` found (lost anchor)")
        # R25: `E?` (E: Result<T, Err>, in a function returning Result<_, Err> with the SAME error type) ->
        # `(match E { Ok(vx_t) => vx_t, Err(vx_e) => { <proof hint> return Err(vx_e); } })`: the definition of `?` where
        # `From::from` is the identity (a different error type does not type-check after the rewrite). Exists so that a proof
        # hint can be given on the early-exit path; the hint is ghost code only.
        if fs.get("r25"):
            tries = [n for n in nodes if n["kind"] == "try" and not n["in_closure"]]
            tries.sort(key=lambda n: n["q"][0])
            for k, hint in sorted(fs["r25"].items()):
                if k >= len(tries):
                    raise Undecided(f"fn {qual}: R25 ordinal {k} not found (lost anchor)")
                n = tries[k]
                s0, e0 = n["range"]
                qs, qe = n["q"]
                edits.append((s0, s0, "(match ", "R25"))
                segs = self._emit_spec(hint, qual, "proof") if hint.strip() else []
                edits.append((qs, qs, f" {{ Ok(vx_t{k}) => vx_t{k}, Err(vx_e{k}) => {{", "R25"))
                edits.append((qs, qs, ("MULTI", segs), "proof"))
                edits.append((qs, qe, f" return Err(vx_e{k}); }} }})", "R25"))
                self.rewrites.append({"rule": "R25", "what": f"`E?` #{k} -> match E {{ Ok(v) => v, Err(e) => {{ return Err(e); }} }} in {qual}",
                                      "file": src.rel, "line": src.line_of(s0)})
        # R26: `for X in S { B }` where S is an identifier holding a std HashSet<T> BY VALUE (T: Copy) and B has no break / continue /
        # return / `?` -> `let vx_items = vx_set_into_vec(S); let mut vx_i: usize = 0; while vx_i < vx_items.len() { let X = vx_items[vx_i];
        # B vx_i = vx_i + 1; }`: the definition of iterating a set (every element exactly once, in an unspecified order -- the trusted
        # helper vx_set_into_vec returns the elements as a duplicate-free sequence in SOME order). The installed Verus has no
        # specification for hash_set::IntoIter and the orphan rule forbids adding one. The loop keeps its ordinal.
        if fs.get("r26"):
            fors = {n["ord"]: n for n in nodes if n["kind"] == "for_parts" and not n["in_closure"]}
            for lo, ety in sorted(fs["r26"].items()):
                if lo not in fors:
                    raise Undecided(f"fn {qual}: R26 loop {lo} is not a for loop (lost anchor)")
                n = fors[lo]
                if n["body_has_ctrl"] or not n["pat_is_ident"] or not n["expr_is_ident"]:
                    raise Undecided(f"fn {qual}: R26 refused (pattern / iterable not plain identifiers, or the body has break/continue/return/?)")
                X = src.text(*n["pat"]).strip(); S = src.text(*n["expr"]).strip()
                fs_, fe_ = n["range"]; bs_, be_ = n["body"]
                edits.append((fs_, bs_, f"let vx_items{lo}: Vec<{ety}> = vx_set_into_vec({S}); let mut vx_i{lo}: usize = 0; while vx_i{lo} < vx_items{lo}.len() ", "R26"))
                edits.append((bs_ + 1, bs_ + 1, f" let {X} = vx_items{lo}[vx_i{lo}];", "R26"))
                edits.append((be_ - 1, be_ - 1, f" vx_i{lo} = vx_i{lo} + 1; ", "R26"))
                self.rewrites.append({"rule": "R26", "what": f"`for {X} in {S}` (HashSet by value) -> indexed while loop over vx_set_into_vec({S}) in {qual}",
                                      "file": src.rel, "line": src.line_of(fs_)})
        # R27: `for X in V { B }` where V is an identifier bound to a `&mut Vec<T>` (so the loop is `V.iter_mut()`: every element in index
        # order, by mutable reference) and B has no break / continue / return / `?` ->
        # `let mut vx_i: usize = 0; while vx_i < V.len() { let X = &mut V[vx_i]; B vx_i = vx_i + 1; }` (the definition of iterating a
        # vector mutably; B cannot touch V itself in the original because V is mutably borrowed for the whole loop). The loop keeps its ordinal.
        if fs.get("r27"):
            fors = {n["ord"]: n for n in nodes if n["kind"] == "for_parts" and not n["in_closure"]}
            for lo in sorted(fs["r27"]):
                if lo not in fors:
                    raise Undecided(f"fn {qual}: R27 loop {lo} is not a for loop (lost anchor)")
                n = fors[lo]
                if n["body_has_ctrl"] or not n["pat_is_ident"] or not n["expr_is_ident"]:
                    raise Undecided(f"fn {qual}: R27 refused (pattern / iterable not plain identifiers, or the body has break/continue/return/?)")
                X = src.text(*n["pat"]).strip(); V = src.text(*n["expr"]).strip()
                fs_, fe_ = n["range"]; bs_, be_ = n["body"]
                edits.append((fs_, bs_, f"let mut vx_i{lo}: usize = 0; while vx_i{lo} < {V}.len() ", "R27"))
                edits.append((bs_ + 1, bs_ + 1, f" let {X} = &mut {V}[vx_i{lo}];", "R27"))
                edits.append((be_ - 1, be_ - 1, f" vx_i{lo} = vx_i{lo} + 1; ", "R27"))
                self.rewrites.append({"rule": "R27", "what": f"`for {X} in {V}` (&mut Vec) -> indexed while loop with `let {X} = &mut {V}[i]` in {qual}",
                                      "file": src.rel, "line": src.line_of(fs_)})
        # R28: `Q.iter().position(|P| P == K)` (Q an identifier; the closure compares its parameter with an expression K by `==`) ->
        # `vx_position(Q, K)`: the index of the first element equal to K (the definition of Iterator::position over a sequence);
        # trusted helper, whose contract speaks of spec equality -- the element type's `==` must agree with it (key model).
        if fs.get("r28"):
            k28 = 0
            for n in nodes:
                if n["kind"] == "closure_call" and n["method"] == "position":
                    c = n["closure"]
                    recv = src.text(*n["receiver"]).strip()
                    m = re.fullmatch(r"([A-Za-z_]\w*)\s*\.\s*iter\s*\(\s*\)", recv)
                    body = src.text(*c["body"]).strip()
                    pat = src.text(*c["params"][0]).strip() if len(c["params"]) == 1 else None
                    mb = re.fullmatch(re.escape(pat or "") + r"\s*==\s*([A-Za-z_]\w*)", body) if pat else None
                    if not m or not mb:
                        raise Undecided(f"fn {qual}: R28 refused (not `q.iter().position(|x| x == k)`: {recv!r} / {body!r})")
                    s0, e0 = n["range"]
                    edits.append((s0, e0, f"vx_position({m.group(1)}, {mb.group(1)})", "R28"))
                    k28 += 1
                    self.rewrites.append({"rule": "R28", "what": f"`{m.group(1)}.iter().position(|{pat}| {body})` -> vx_position({m.group(1)}, {mb.group(1)}) in {qual}",
                                          "file": src.rel, "line": src.line_of(s0)})
            if k28 == 0:
                raise Undecided(f"fn {qual}: R28 requested but no `.iter().position(..)` found (lost anchor)")
        # R18: `match E { P if G => A, _ => B }` (exactly these two arms) -> `if let P = E { if G { A } else { B } } else { B }`
        # (the installed Verus refuses a match arm that has both a guard and a by-mutable-reference binding). The guard is
        # evaluated exactly once on the path where P matches, as in the original; B is duplicated textually.
        if fs.get("r18"):
            k18 = 0
            for n in nodes:
                if n["kind"] != "match" or len(n["arms"]) != 2:
                    continue
                a0, a1 = n["arms"]
                if a0["guard"] is None or not a1["wild"] or a1["guard"] is not None:
                    continue
                if not (a0["body_is_block"] and a1["body_is_block"]):
                    raise Undecided(f"fn {qual}: R18 refused (arm bodies are not blocks)")
                s0, e0 = n["range"]
                P = src.text(*a0["pat"]); G = src.text(*a0["guard"]); E = src.text(*n["scrutinee"])
                A = src.text(*a0["body"]); B = src.text(*a1["body"])
                # surgical edits (the arm bodies stay in place so that hints and canaries inside them still apply; the
                # second copy of B is the original text)
                edits.append((s0, a0["pat"][0], "if let ", "R18"))
                edits.append((a0["pat"][1], a0["guard"][0], f" = {E} {{ if ", "R18"))
                edits.append((a0["guard"][1], a0["body"][0], " ", "R18"))
                edits.append((a0["body"][1], a1["body"][0], " else ", "R18"))
                edits.append((a1["body"][1], e0, f" }} else {B}", "R18"))
                k18 += 1
                self.rewrites.append({"rule": "R18", "what": f"`match {E} {{ P if G => A, _ => B }}` -> if let P = {E} {{ if G A else B }} else B in {qual}",
                                      "file": src.rel, "line": src.line_of(s0)})
            if k18 == 0:
                raise Undecided(f"fn {qual}: R18 requested but no two-armed guarded match found (lost anchor)")
        # R17: `E.map_err(|e| F)?` -> `match E { Ok(v) => v, Err(e) => return Err(F) }`
        # (definitions of Result::map_err and of `?`; the `From::from` that `?` applies is the identity here: refused unless
        #  the vspec asserts it by asking for r17 on a function whose error type is the closure's result type)
        if fs.get("r17"):
            k17 = 0
            for n in nodes:
                if n["kind"] == "closure_call" and n["method"] == "map_err":
                    c = n["closure"]
                    s0, e0 = n["range"]
                    if c["has_ctrl"] or len(c["params"]) != 1:
                        raise Undecided(f"fn {qual}: R17 refused (closure shape)")
                    pat = src.text(*c["params"][0])
                    rs, re_ = n["receiver"]
                    bs, be = c["body"]
                    if src.bytes[e0:e0 + 1] != b"?":
                        # without `?`: `E.map_err(|e| F)` -> `match E { Ok(v) => Ok(v), Err(e) => Err(F) }` (definition of map_err)
                        edits.append((s0, rs, "(match ", "R17"))
                        edits.append((re_, bs, f" {{ Ok(vx_ok{k17}) => Ok(vx_ok{k17}), Err({pat}) => Err(", "R17"))
                        edits.append((be, e0, ") })", "R17"))
                        k17 += 1
                        self.rewrites.append({"rule": "R17", "what": f"`E.map_err(|{pat}| F)` -> match E {{ Ok(v) => Ok(v), Err({pat}) => Err(F) }} in {qual}",
                                              "file": src.rel, "line": src.line_of(s0)})
                        continue
                    edits.append((s0, rs, "(match ", "R17"))
                    edits.append((re_, bs, f" {{ Ok(vx_ok{k17}) => vx_ok{k17}, Err({pat}) => return Err(", "R17"))
                    edits.append((be, e0 + 1, ") })", "R17"))
                    k17 += 1
                    self.rewrites.append({"rule": "R17", "what": f"`E.map_err(|{pat}| F)?` -> match E {{ Ok(v) => v, Err({pat}) => return Err(F) }} in {qual}",
                                          "file": src.rel, "line": src.line_of(s0)})
            if k17 == 0:
                raise Undecided(f"fn {qual}: R17 requested but no `.map_err(..)?` found (lost anchor)")
        # R1: Option::and_then / map closures
        ccs = [n for n in nodes if n["kind"] == "closure_call" and n["method"] in ("and_then", "map")]
        sel = range(len(ccs)) if fs["r1"] == "all" else fs["r1"]
        for k in sel:
            if k >= len(ccs):
                raise Undecided(f"fn {qual}: R1 ordinal {k} not found (lost anchor)")
            n = ccs[k]
            c = n["closure"]
            if c["has_ctrl"]:
                raise Undecided(f"fn {qual}: R1 refused (closure body has return/?/break/continue)")
            if len(c["params"]) != 1:
                raise Undecided(f"fn {qual}: R1 refused (closure arity)")
            pat = src.text(*c["params"][0])
            s, e = n["range"]
            rs, re_ = n["receiver"]
            bs, be = c["body"]
            edits.append((s, rs, "(match ", "R1"))
            edits.append((re_, bs, " { Some(" + pat + ") => " + ("Some(" if n["method"] == "map" else ""), "R1"))
            edits.append((be, e, (")" if n["method"] == "map" else "") + ", None => None })", "R1"))
            self.rewrites.append({"rule": "R1", "what": f"Option::{n['method']}(|{pat}| ..) -> match in {qual}",
                                  "file": src.rel, "line": src.line_of(s)})
        # R19: `E.map(Ctor)` on an Option, where Ctor is the path of a tuple-variant constructor with one field
        # -> `(match E { Some(v) => Some(Ctor(v)), None => None })` (definition of Option::map; the installed Verus refuses a
        # datatype constructor used as a function value)
        if fs.get("r19"):
            k19 = 0
            for n in nodes:
                if n["kind"] == "path_call" and n["method"] == "map" and n["segments"] >= 2:
                    ctor = src.text(*n["path"])
                    s0, e0 = n["range"]
                    rs, re_ = n["receiver"]
                    if ctor == "Into::into":
                        # `E.map(Into::into)`: the function value is the trait method; applied to v it is `v.into()`
                        app = f"vx_v{k19}.into()"
                    elif re.fullmatch(r"[A-Za-z_]\w*(::[A-Za-z_]\w*)*", ctor):
                        # a constructor path or the path of a function item (`Text::as_str`): applied to v it is `PATH(v)`
                        app = f"{ctor}(vx_v{k19})"
                    else:
                        raise Undecided(f"fn {qual}: R19 refused ({ctor!r} is not a constructor path)")
                    edits.append((s0, rs, "(match ", "R19"))
                    edits.append((re_, e0, f" {{ Some(vx_v{k19}) => Some({app}), None => None }})", "R19"))
                    k19 += 1
                    self.rewrites.append({"rule": "R19", "what": f"`E.map({ctor})` -> match E {{ Some(v) => Some({ctor}(v)), None => None }} in {qual}",
                                          "file": src.rel, "line": src.line_of(s0)})
            if k19 == 0:
                raise Undecided(f"fn {qual}: R19 requested but no `.map(Constructor)` found (lost anchor)")
        # R22: `RECV.callback(args).await` where RECV is a lifecycle object whose trait appears as a stand-in with PLAIN `fn`
        # callbacks (the installed Verus refuses `async fn` / `-> impl Future` in trait definitions): the `.await` is dropped.
        # Sound for the contracts stated here because the callback future is awaited to completion right where it is created,
        # on an exclusively borrowed receiver: from the point of view of this function's own state it is a sequential call
        # (cancellation of the enclosing future mid-await is outside every contract: partial correctness).
        if fs.get("r22"):
            k22 = 0
            for n in nodes:
                if (n["kind"] == "await_call" and src.text(*n["receiver"]).strip() in fs["r22"]) or \
                        (n["kind"] == "await_fn" and ("fn:" + n["func"]) in fs["r22"]):
                    bs, be = n["base"]
                    s0, e0 = n["range"]
                    edits.append((be, e0, "", "R22"))
                    k22 += 1
                    self.rewrites.append({"rule": "R22", "what": f"`{src.text(bs, be)}.await` -> `{src.text(bs, be)}` (stand-in trait with plain fn callbacks) in {qual}",
                                          "file": src.rel, "line": src.line_of(s0)})
            if k22 == 0:
                raise Undecided(f"fn {qual}: R22 requested but no `<receiver>.<callback>(..).await` found (lost anchor)")
        # R2: break V -> return V for tail loops
        loops = {n["ord"]: n for n in nodes if n["kind"] in ("loop", "while", "for")}
        for lo in fs["r2"]:
            if lo not in loops:
                raise Undecided(f"fn {qual}: R2 loop {lo} not found (lost anchor)")
            ln = loops[lo]
            tail = src.text(ln["range"][1], blk[1])
            if tail.replace("}", "").strip():
                raise Undecided(f"fn {qual}: R2 refused (loop {lo} is not in tail position)")
            for n in nodes:
                if n["kind"] == "break" and n["loop_ord"] == lo and n["value"] is not None and not n["in_closure"]:
                    if n["label"]:
                        raise Undecided(f"fn {qual}: R2 refused (labelled break)")
                    s, e = n["kw"]
                    edits.append((s, e, "return", "R2"))
                    self.rewrites.append({"rule": "R2", "what": f"break <v> -> return <v> in tail loop {lo} of {qual}",
                                          "file": src.rel, "line": src.line_of(s)})
        # contract splice
        if fs["contract"]:
            segs = self._emit_spec(fs["contract"], qual, "contract")
            edits.append((blk[0], blk[0], ("MULTI", segs), "contract"))
        # loop invariants
        for lo, text in fs["loops"].items():
            if lo not in loops:
                raise Undecided(f"fn {qual}: loop {lo} not found (lost anchor)")
            b0 = loops[lo]["body"][0]
            segs = self._emit_spec(text, qual, f"loop{lo}")
            edits.append((b0, b0, ("MULTI", segs), "loopinv"))
        # proof blocks by anchor
        fn_s, fn_e = fnode["range"]
        body_text = src.text(blk[0], blk[1])
        for p in fs["proofs"]:
            occ = [m.start() for m in re.finditer(re.escape(p["anchor"]), body_text)]
            if p["nth"] is not None:
                if p["nth"] >= len(occ):
                    raise Undecided(f"fn {qual}: anchor {p['anchor']!r}#{p['nth']} not found (lost anchor)")
                occ = [occ[p["nth"]]]
            if len(occ) != 1:
                raise Undecided(f"fn {qual}: anchor {p['anchor']!r} occurs {len(occ)} times (lost anchor)")
            off = blk[0] + len(body_text[:occ[0]].encode("utf-8"))
            # line bounds
            ls = src.bytes.rfind(b"\n", 0, off) + 1
            le = src.bytes.find(b"\n", off)
            if le < 0:
                le = len(src.bytes)
            for _ in range(p.get("plus", 0)):
                ls = le + 1
                le = src.bytes.find(b"\n", ls)
                if le < 0:
                    le = len(src.bytes)
            at = ls if p["where"] == "before" else le + 1
            segs = self._emit_spec(p["text"], qual, "proof")
            edits.append((at, at, ("MULTI", segs), "proof"))
        # canaries
        if self.canary and not fs["nocanary"] and not fs["external_body"]:
            for n in nodes:
                if n["kind"] != "block" or n["in_closure"]:
                    continue
                bs, be = n["range"]
                if not (blk[0] <= bs and be <= blk[1]):
                    continue
                if n["nstmts"] == 0:
                    at = bs + 1
                elif n["tail_expr"] or n["diverges"]:
                    at = n["last_stmt"][0]
                else:
                    at = be - 1
                cid = self.ncanary
                self.ncanary += 1
                inner = src.text(bs + 1, be - 1).strip()
                dead = False
                for (anc, nth) in fs["dead"]:
                    cands = [m for m in nodes if m["kind"] == "block" and not m["in_closure"]
                             and blk[0] <= m["range"][0] and m["range"][1] <= blk[1]
                             and src.text(m["range"][0] + 1, m["range"][1] - 1).strip() == anc]
                    cands.sort(key=lambda m: m["range"][0])
                    if nth < len(cands) and cands[nth]["range"] == n["range"]:
                        dead = True
                self.canaries.append({"id": cid, "fn": qual, "file": src.rel, "line": src.line_of(at), "dead": dead})
                edits.append((at, at, f" proof {{ if vx_canary({cid}) {{ assert(false); }} }} ", "canary"))

    def _emit_edits(self, src, a, b, edits, em):
        flat = []
        for (s, e, rep, tag) in edits:
            flat.append((s, e, rep, tag))
        # (a canary at the start of a statement goes in front of a rewrite that starts at the same byte)
        flat.sort(key=lambda x: (x[0], x[1], 0 if x[3] == "canary" else 1))
        pos = a
        for (s, e, rep, tag) in flat:
            if s < pos:
                raise Undecided(f"overlapping rewrites at {src.rel}:{src.line_of(s)} ({tag})")
            if s > pos:
                em.raw(src.text(pos, s), ("src", src, pos))
            if isinstance(rep, tuple) and rep[0] == "MULTI":
                em.raw("\n")
                for (t, o) in rep[1]:
                    em.raw(t, o)
            elif rep:
                em.raw(rep, ("rw", tag))
            pos = max(pos, e)
        if pos < b:
            em.raw(src.text(pos, b), ("src", src, pos))

    def generate(self):
        spec = self.spec
        em = Emitter()
        em.raw("// GENERATED by /verif/lib/vxgen.py from /repo working tree — do not edit\n")
        em.raw("#![feature(allocator_api)]\n#![allow(unused, dead_code, non_camel_case_types)]\n")
        for t in spec["top"]:
            em.raw(t + "\n", ("spec", {"fn": None, "label": None, "kind": "top"}))
        em.raw("use vstd::prelude::*;\nverus! {\n")
        if self.canary:
            em.raw("pub uninterp spec fn vx_canary(i: int) -> bool;\n")
        for sh in spec["shims"]:
            p = os.path.join(VERIF, "shims", sh + ".rs")
            if not os.path.exists(p):
                raise Undecided(f"shim {sh} missing")
            em.raw(f"// ---- shim {sh} (trusted)\n")
            em.raw(open(p).read() + "\n", ("shim", sh))
        for t in spec["prelude"]:
            for (tx, o) in self._emit_spec(t, None, "prelude"):
                em.raw(tx, o)
        for ent in spec["entries"]:
            src = self.sources.get(ent["src"])
            if src is None:
                raise Undecided(f"unknown source alias {ent['src']}")
            if ent["type"] == "item":
                found = src.find_items(ent["kind"], ent["name"])
                if len(found) != 1:
                    raise Undecided(f"item {ent['kind']} {ent['name']} found {len(found)} times in {src.rel}")
                it = found[0]
                edits = []
                self._strip_attrs_vis(src, it, edits, what=f"{ent['kind']} {ent['name']}")
                for f in it.get("fields", []):
                    self._strip_attrs_vis(src, f, edits, what=f"field of {ent['name']}")
                for v in it.get("variants", []):
                    self._strip_attrs_vis(src, v, edits, what=f"variant of {ent['name']}")
                    for f in v.get("fields", []):
                        self._strip_attrs_vis(src, f, edits, what=f"field of {ent['name']}")
                a, b = it["range"]
                for at in it.get("attrs", []):
                    a = min(a, at["range"][0])
                em.raw(f"// ---- {ent['kind']} {ent['name']} from {src.rel}:{src.line_of(a)}\n")
                if ent.get("eval") is not None:
                    # R11: a const whose initialiser is a compile-time size_of is replaced by its value
                    txt = src.text(a, b)
                    m = re.match(r"(?s)(.*?\bconst\s+\w+\s*:\s*\w+\s*=\s*)(.*?);\s*$", txt)
                    SIZES = {"u8": 1, "u16": 2, "u32": 4, "u64": 8, "u128": 16, "i8": 1, "i16": 2, "i32": 4, "i64": 8, "i128": 16}
                    ok = False
                    if m:
                        init = re.sub(r"\s+", "", m.group(2))
                        m2 = re.fullmatch(r"(?:std::mem::|core::mem::|mem::)?size_of::<(\w+)>\(\)", init)
                        if m2 and str(SIZES.get(m2.group(1))) == ent["eval"]:
                            ok = True
                        if re.fullmatch(r"\d+", init) and init == ent["eval"]:
                            ok = True
                    if not ok:
                        raise Undecided(f"const {ent['name']}: R11 refused (initialiser changed: {txt.strip()!r})")
                    edits.append((a + len(m.group(1).encode()), b, ent["eval"] + ";", "R11"))
                    self.rewrites.append({"rule": "R11", "what": f"const {ent['name']} initialiser `{m.group(2)}` evaluated to {ent['eval']}",
                                          "file": src.rel, "line": src.line_of(a)})
                if ent.get("bytes") is not None:
                    # R16: a byte-string constant becomes an exec const whose content is an uninterpreted spec value
                    # (the literal itself is compared with the text expected by the contract file)
                    txt = src.text(a, b)
                    m = re.match(r"(?s).*?\bconst\s+(\w+)\s*:\s*&(?:'static\s+)?\[u8\]\s*=\s*(b\"[^\"]*\")\s*;\s*$", txt)
                    if not m or m.group(2) != 'b"' + ent["bytes"] + '"':
                        raise Undecided(f"const {ent['name']}: R16 refused (initialiser is not b\"{ent['bytes']}\": {txt.strip()!r})")
                    nm = m.group(1)
                    em.raw(f"uninterp spec fn {nm}_spec() -> Seq<u8>;\n#[verifier::external_body]\nexec const {nm}: &'static [u8] ensures {nm}@ == {nm}_spec() {{ {m.group(2)} }}\n", ("rw", "R16"))
                    self.rewrites.append({"rule": "R16", "what": f"const {nm} = {m.group(2)} emitted as exec const with uninterpreted content {nm}_spec()",
                                          "file": src.rel, "line": src.line_of(a)})
                    self.items.append({"kind": "const", "name": ent["name"], "file": src.rel, "lines": [src.line_of(a), src.line_of(b)],
                                       "sha256": hashlib.sha256(src.bytes[a:b]).hexdigest()})
                    continue
                if ent["kind"] == "const":
                    # R14: elided lifetime in a const's reference type is 'static (spelled out for the verus! macro)
                    txt = src.text(a, b)
                    m = re.search(r":\s*&(?!')", txt)
                    if m and "=" in txt and m.start() < txt.index("="):
                        off = a + len(txt[:m.end()].encode())
                        edits.append((off, off, "'static ", "R14"))
                        self.rewrites.append({"rule": "R14", "what": f"const {ent['name']}: elided lifetime written as 'static",
                                              "file": src.rel, "line": src.line_of(a)})
                for va in ent.get("vattrs", []):
                    em.raw(f"#[verifier::{va}]\n", ("rw", "vattr"))
                if ent["derive"]:
                    em.raw(f"#[derive({ent['derive']})]\n", ("rw", "derive"))
                self._emit_edits(src, a, b, edits, em)
                em.raw("\n")
                if ent.get("default_variant"):
                    # R21: `#[derive(Default)]` on an enum whose unit variant V carries `#[default]` -> explicit
                    # `impl Default { fn default() -> V }` (what the derive expands to), checked against the source text
                    V = ent["default_variant"]
                    txt = src.text(a, b)
                    if not re.search(r"#\[derive\([^)]*\bDefault\b[^)]*\)\]", txt) or not re.search(r"#\[default\]\s*" + re.escape(V) + r"\s*,", txt):
                        raise Undecided(f"{ent['kind']} {ent['name']}: R21 refused (no derive(Default) with #[default] {V})")
                    gm = re.search(r"\benum\s+" + re.escape(ent["name"]) + r"\s*(<[^>{]*>)?", txt)
                    gen = gm.group(1) or ""
                    em.raw(f"impl{gen} Default for {ent['name']}{gen} {{ fn default() -> (r: Self) ensures r is {V} {{ {ent['name']}::{V} }} }}\n", ("rw", "R21"))
                    self.rewrites.append({"rule": "R21", "what": f"derive(Default) with #[default] {V} on {ent['name']} written out as impl Default",
                                          "file": src.rel, "line": src.line_of(a)})
                self.items.append({"kind": ent["kind"], "name": ent["name"], "file": src.rel,
                                   "lines": [src.line_of(a), src.line_of(b)],
                                   "sha256": hashlib.sha256(src.bytes[a:b]).hexdigest()})
            elif ent["type"] == "bitflags":
                # R20: `bitflags! { struct N: u8 { const A = <literal>; ... } }` -> a plain `struct N { b: u8 }` whose associated
                # constants carry the literals READ FROM THE MACRO BODY, with the methods of the bitflags API that the code under
                # contract uses (empty, insert, contains, bits, from_bits_truncate) written out with their documented meaning
                # and verified bodies. Everything else the macro generates (Debug, other set operations, iterators) is dropped.
                hits = []
                for it in src.index["items"]:
                    if it["kind"] == "other":
                        txt = src.text(*it["range"])
                        m = re.match(r"(?s)\s*bitflags!\s*\{(.*)\}\s*$", txt)
                        if m and re.search(r"\bstruct\s+" + re.escape(ent["name"]) + r"\s*:\s*u8\b", m.group(1)):
                            hits.append((it, m.group(1)))
                if len(hits) != 1:
                    raise Undecided(f"bitflags {ent['name']} found {len(hits)} times in {src.rel}")
                it, body = hits[0]
                m = re.search(r"(?s)\bstruct\s+" + re.escape(ent["name"]) + r"\s*:\s*u8\s*\{(.*)\}", body)
                inner = re.sub(r"//[^\n]*", "", m.group(1))
                consts = re.findall(r"\bconst\s+([A-Z_][A-Z0-9_]*)\s*=\s*(0b[01_]+|0x[0-9a-fA-F_]+|[0-9_]+)\s*;", inner)
                leftover = re.sub(r"\bconst\s+[A-Z_][A-Z0-9_]*\s*=\s*(0b[01_]+|0x[0-9a-fA-F_]+|[0-9_]+)\s*;", "", inner).strip()
                if not consts or leftover:
                    raise Undecided(f"bitflags {ent['name']}: R20 refused (body is not a list of `const NAME = literal;`: {leftover[:60]!r})")
                allv = 0
                for _, lit in consts:
                    allv |= int(lit.replace("_", ""), 0)
                a, b = it["range"]
                N = ent["name"]
                em.raw(f"// ---- bitflags {N} from {src.rel}:{src.line_of(a)} (rule R20)\n")
                out = [f"#[derive(Clone, Copy)]\nstruct {N} {{ b: u8 }}\nimpl {N} {{"]
                for cn, lit in consts:
                    out.append(f"    const {cn}: {N} = {N} {{ b: {lit} }};")
                out.append(f"    fn empty() -> (r: Self) ensures r.b == 0 {{ {N} {{ b: 0 }} }}")
                out.append(f"    fn insert(&mut self, other: Self) ensures final(self).b == old(self).b | other.b {{ self.b = self.b | other.b; }}")
                out.append(f"    fn contains(&self, other: Self) -> (r: bool) ensures r == (self.b & other.b == other.b) {{ self.b & other.b == other.b }}")
                out.append(f"    fn bits(&self) -> (r: u8) ensures r == self.b {{ self.b }}")
                out.append(f"    fn from_bits_truncate(bits: u8) -> (r: Self) ensures r.b == bits & {allv}u8 {{ {N} {{ b: bits & {allv}u8 }} }}")
                out.append("}\n")
                em.raw("\n".join(out), ("rw", "R20"))
                self.rewrites.append({"rule": "R20", "what": f"bitflags! struct {N}: u8 with constants {', '.join(c + '=' + l for c, l in consts)} emitted as a plain struct with empty/insert/contains/bits/from_bits_truncate",
                                      "file": src.rel, "line": src.line_of(a)})
                self.items.append({"kind": "bitflags", "name": N, "file": src.rel, "lines": [src.line_of(a), src.line_of(b)],
                                   "sha256": hashlib.sha256(src.bytes[a:b]).hexdigest()})
            elif ent["type"] == "impl":
                impls = src.find_impls(ent["name"], ent["trait"])
                if ent["nth"] is not None:
                    impls = impls[ent["nth"]:ent["nth"] + 1]
                if not impls:
                    raise Undecided(f"impl {ent['name']} (trait {ent['trait']}) not found in {src.rel}")
                wanted = {f["name"]: f for f in ent["fns"]}
                seen = set()
                first = True
                for im in impls:
                    sel = [x for x in im["items"] if (x["kind"] == "fn" and x["name"] in wanted) or
                           (x["kind"] in ("const", "type") and x["name"] in ent["consts"])]
                    if not sel and not (first and ent["extra"] and im is impls[-1]):
                        continue
                    hs, he = im["header"]
                    em.raw(f"// ---- impl {ent['name']} from {src.rel}:{src.line_of(hs)}\n")
                    if ent["header"]:
                        em.raw(ent["header"] + " {\n", ("rw", "header"))
                        self.rewrites.append({"rule": "H", "what": f"impl header of {ent['name']} replaced",
                                              "file": src.rel, "line": src.line_of(hs)})
                    else:
                        em.raw(src.text(hs, he) + "\n", ("src", src, hs))
                    if first:
                        for x in ent["extra"]:
                            for (tx, o) in self._emit_spec(x, ent["name"], "extra"):
                                em.raw(tx, o)
                        first = False
                    for x in sel:
                        a, b = x["range"]
                        for at in x.get("attrs", []):
                            a = min(a, at["range"][0])
                        edits = []
                        if x["kind"] == "fn":
                            fs = wanted[x["name"]]
                            qual = f"{ent['name']}::{x['name']}"
                            if x["name"] in seen:
                                raise Undecided(f"fn {qual} found twice")
                            seen.add(x["name"])
                            self._fn_edits(src, x, fs, edits, qual)
                            if fs["external_body"]:
                                em.raw("#[verifier::external_body]\n")
                            for fa in fs.get("fnattrs", []):
                                em.raw(f"#[{fa}]\n")
                            self.functions.append({"fn": qual, "file": src.rel,
                                                   "lines": [src.line_of(a), src.line_of(b)],
                                                   "sha256": hashlib.sha256(src.bytes[a:b]).hexdigest(),
                                                   "external_body": fs["external_body"],
                                                   "has_contract": bool(fs["contract"])})
                        else:
                            self._strip_attrs_vis(src, x, edits, what=f"{x['kind']} {x['name']}")
                        self._emit_edits(src, a, b, edits, em)
                        em.raw("\n")
                    em.raw("}\n")
                missing = set(wanted) - seen
                if missing:
                    raise Undecided(f"impl {ent['name']}: fns not found: {sorted(missing)} (lost anchor)")
            elif ent["type"] == "trait":
                found = src.find_items("trait", ent["name"])
                if len(found) != 1:
                    raise Undecided(f"trait {ent['name']} found {len(found)} times in {src.rel}")
                tr = found[0]
                wanted = {f["name"]: f for f in ent["fns"]}
                a = tr["range"][0]
                edits = []
                self._strip_attrs_vis(src, tr, edits, what=f"trait {ent['name']}")
                bo = tr["brace_open"][1]
                extra_segs = []
                for x in ent["extra"]:
                    extra_segs.extend(self._emit_spec(x, ent["name"], "extra"))
                if extra_segs:
                    edits.append((bo, bo, ("MULTI", extra_segs), "extra"))
                seen = set()
                for x in tr["items"]:
                    if x["kind"] != "fn":
                        continue
                    for at in x.get("attrs", []):
                        edits.append((at["range"][0], at["range"][1], "", "R3"))
                    if x["name"] in wanted:
                        fs = wanted[x["name"]]
                        seen.add(x["name"])
                        qual = f"{ent['name']}::{x['name']}"
                        if x["block"] is not None:
                            self._fn_edits(src, x, fs, edits, qual)
                        else:
                            if fs["ret"]:
                                rs, re_ = x["sig"]["ret"]
                                edits.append((rs, rs, f"({fs['ret']}: ", "R8"))
                                edits.append((re_, re_, ")", "R8"))
                            if fs["contract"]:
                                segs = self._emit_spec(fs["contract"], qual, "contract")
                                se = x["sig"]["range"][1]
                                edits.append((se, se, ("MULTI", segs), "contract"))
                missing = set(wanted) - seen
                if missing:
                    raise Undecided(f"trait {ent['name']}: fns not found: {sorted(missing)} (lost anchor)")
                em.raw(f"// ---- trait {ent['name']} from {src.rel}:{src.line_of(a)}\n")
                self._emit_edits(src, a, tr["range"][1], edits, em)
                em.raw("\n")
                self.items.append({"kind": "trait", "name": ent["name"], "file": src.rel,
                                   "lines": [src.line_of(a), src.line_of(tr["range"][1])],
                                   "sha256": hashlib.sha256(src.bytes[a:tr["range"][1]]).hexdigest()})
            elif ent["type"] == "fn":
                found = src.find_items("fn", ent["name"])
                if len(found) != 1:
                    raise Undecided(f"fn {ent['name']} found {len(found)} times in {src.rel}")
                x = found[0]
                a, b = x["range"]
                for at in x.get("attrs", []):
                    a = min(a, at["range"][0])
                edits = []
                self._fn_edits(src, x, ent, edits, ent["name"])
                em.raw(f"// ---- fn {ent['name']} from {src.rel}:{src.line_of(a)}\n")
                if ent["external_body"]:
                    em.raw("#[verifier::external_body]\n")
                for fa in ent.get("fnattrs", []):
                    em.raw(f"#[{fa}]\n")
                self.functions.append({"fn": ent["name"], "file": src.rel, "lines": [src.line_of(a), src.line_of(b)],
                                       "sha256": hashlib.sha256(src.bytes[a:b]).hexdigest(),
                                       "external_body": ent["external_body"],
                                       "has_contract": bool(ent["contract"])})
                self._emit_edits(src, a, b, edits, em)
                em.raw("\n")
        for t in spec["lemmas"]:
            for (tx, o) in self._emit_spec(t, "lemmas", "lemma"):
                em.raw(tx, o)
        em.raw("\n} // verus!\nfn main() {}\n")
        return em.finish()


# --------------------------------------------------------------------------------------------
# running verus
# --------------------------------------------------------------------------------------------

VERIF_MSGS = [
    ("postcondition not satisfied", "post"),
    ("precondition not satisfied", "pre"),
    ("assertion failed", "assert"),
    ("invariant not satisfied before loop", "inv_entry"),
    ("invariant not satisfied at end of loop body", "inv_step"),
    ("loop invariant not satisfied", "inv"),
    ("possible arithmetic underflow/overflow", "overflow"),
    ("possible division by zero", "div0"),
    ("decreases not satisfied", "decreases"),
    ("could not prove termination", "decreases"),
    ("possible bit shift underflow/overflow", "overflow"),
    ("unreachable", "unreachable"),
    ("failed precondition", "pre"),
    ("recommendation not met", "recommend"),
    ("could not show invariant", "inv"),
    ("unable to prove assertion", "assert"),
    ("panic", "panic"),
]


def run_verus(path, rlimit=60, extra=()):
    cmd = ["verus", path, "--output-json", "--time", "--multiple-errors", "400", "--error-format=json",
           "--rlimit", str(rlimit)] + list(extra)
    t0 = time.time()
    r = subprocess.run(cmd, capture_output=True, text=True, cwd=os.path.dirname(path))
    wall = time.time() - t0
    try:
        out = json.loads(r.stdout)
    except Exception:
        out = {}
    diags = []
    for l in r.stderr.split("\n"):
        l = l.strip()
        if l.startswith("{"):
            try:
                d = json.loads(l)
            except Exception:
                continue
            if d.get("$message_type") == "diagnostic":
                diags.append(d)
    return {"rc": r.returncode, "json": out, "diags": diags, "wall": wall, "cmd": " ".join(cmd), "stderr": r.stderr}


def classify(msg):
    for pat, kind in VERIF_MSGS:
        if pat in msg:
            return kind
    return None


def analyse(gen_text, origins, res, gen):
    """map diagnostics to (fn, label); returns dict"""
    lines = gen_text.split("\n")
    # map generated line -> function under contract: scan origins for spec entries / src lines
    fn_ranges = []  # (start_line, fn)
    cur = None

    def origin_fn(o):
        for x in o:
            if x[0] == "spec" and x[1].get("fn"):
                return x[1]["fn"]
        return None

    def src_of(k):
        if k < 0 or k >= len(origins):
            return None
        for x in origins[k]:
            if x[0] == "src":
                return (x[1].rel, x[1].line_of(x[2]))
        return None

    # function line ranges from source mapping
    frs = []
    for f in gen.functions:
        frs.append(f)

    def fn_of_line(k):
        s = None
        # search nearest src origin at or before k
        j = k
        while j >= 0 and s is None:
            s = src_of(j)
            if s is None and j < len(origins):
                f = origin_fn(origins[j])
                if f:
                    return f
            j -= 1
        if s:
            for f in frs:
                if f["file"] == s[0] and f["lines"][0] <= s[1] <= f["lines"][1]:
                    return f["fn"]
        return None

    def label_of_line(k):
        if 0 <= k < len(origins):
            for x in origins[k]:
                if x[0] == "spec":
                    return x[1]
        return None

    errors = []
    hard = []
    notes = []
    for d in res["diags"]:
        lvl = d.get("level")
        msg = d.get("message", "")
        if lvl not in ("error",):
            if lvl == "warning":
                notes.append(msg)
            continue
        if msg.startswith("aborting due to") or "previous error" in msg:
            continue
        kind = classify(msg)
        spans = d.get("spans", [])
        prim = [s for s in spans if s.get("is_primary")]
        sec = [s for s in spans if not s.get("is_primary")]
        if kind is None:
            hard.append({"msg": msg, "rendered": d.get("rendered", "")[:2000]})
            continue
        pl = prim[0]["line_start"] - 1 if prim else None
        fn = fn_of_line(pl) if pl is not None else None
        lab = None
        # spec label: prefer a span (secondary first) that lies on a labelled spec line
        for s in sec + prim:
            li = label_of_line(s["line_start"] - 1)
            if li and li.get("label"):
                lab = li["label"]
                if kind in ("post", "inv", "inv_entry", "inv_step") and li.get("fn"):
                    fn = fn or li["fn"]
                break
        if fn is None:
            for s in sec + prim:
                li = label_of_line(s["line_start"] - 1)
                if li and li.get("fn"):
                    fn = li["fn"]
                    break
        if fn is None:
            # e.g. the postcondition is the one declared on the stand-in trait method (in a shim): the exit span is in the function
            for s in sec + prim:
                f2 = fn_of_line(s["line_start"] - 1)
                if f2:
                    fn = f2
                    break
        if lab is None:
            for s in prim + sec:
                k = s["line_start"] - 1
                if 0 <= k < len(origins):
                    sh = [x for x in origins[k] if x[0] == "shim"]
                    if sh:
                        lab = f"{sh[0][1]}::contract_declared_on_the_trait_method"
                        break
        src = src_of(pl) if pl is not None else None
        text = lines[pl].strip() if pl is not None and pl < len(lines) else ""
        canary = None
        m = re.search(r"vx_canary\((\d+)\)", text)
        if m:
            canary = int(m.group(1))
        errors.append({"kind": kind, "fn": fn, "label": lab, "msg": msg, "gen_line": (pl + 1) if pl is not None else None,
                       "src": src, "text": text, "canary": canary, "rendered": d.get("rendered", "")[:3000]})
    return {"errors": errors, "hard": hard, "notes": notes}


def build_unit(vspec_path, repo, outdir, canary=False):
    spec = parse_vspec(vspec_path)
    gen = UnitGen(spec, repo, canary=canary)
    text, origins = gen.generate()
    os.makedirs(outdir, exist_ok=True)
    out = os.path.join(outdir, spec["unit"] + ("_canary" if canary else "") + ".rs")
    with open(out, "w") as f:
        f.write(text)
    return spec, gen, text, origins, out


if __name__ == "__main__":
    import argparse
    ap = argparse.ArgumentParser()
    ap.add_argument("vspec")
    ap.add_argument("--repo", default="/repo")
    ap.add_argument("--out", default="/tmp/vxout")
    ap.add_argument("--canary", action="store_true")
    ap.add_argument("--rlimit", type=int, default=60)
    a = ap.parse_args()
    try:
        spec, gen, text, origins, out = build_unit(a.vspec, a.repo, a.out, canary=a.canary)
    except Undecided as e:
        print("UNDECIDED:", e)
        sys.exit(2)
    res = run_verus(out, rlimit=a.rlimit)
    an = analyse(text, origins, res, gen)
    vr = res["json"].get("verification-results", {})
    print(json.dumps(vr), f"wall={res['wall']:.1f}s", out)
    for h in an["hard"]:
        print("HARD:", h["rendered"])
    for e in an["errors"]:
        if a.canary and e["canary"] is not None:
            continue
        print(f"ERR kind={e['kind']} fn={e['fn']} label={e['label']} src={e['src']} :: {e['text']}")
        if not a.canary:
            print(e["rendered"])
    if a.canary:
        hit = {e["canary"] for e in an["errors"] if e["canary"] is not None}
        for c in gen.canaries:
            ok = (c["id"] in hit) != c["dead"]
            if not ok:
                print("CANARY-PROBLEM", c, "reported" if c["id"] in hit else "NOT reported (vacuous path)")
        print(f"canaries: {len(gen.canaries)} reported failing: {len(hit)}")
