"""Property runner: composes vx (Verus), kx (Kani) and bx (bounded) components per property."""
import concurrent.futures as cf
import hashlib
import json
import os
import re
import shutil
import subprocess
import sys
import time

import vxgen
from vxgen import Undecided

VERIF = os.path.dirname(os.path.dirname(os.path.abspath(__file__)))
WORK = os.path.join(VERIF, ".work")
REPLAYS = os.path.join(VERIF, "replays")
EVID = os.path.join(VERIF, "evidence")
KNOWN = os.path.join(VERIF, "known_findings.jsonl")

import registry  # noqa: E402


# ------------------------------------------------------------------------------------------------
# known findings
# ------------------------------------------------------------------------------------------------

def load_known():
    out = []
    if os.path.exists(KNOWN):
        for l in open(KNOWN):
            l = l.strip()
            if not l or l.startswith("#"):
                continue
            out.append(json.loads(l))
    return out


# ------------------------------------------------------------------------------------------------
# vx component
# ------------------------------------------------------------------------------------------------

ASSUME_PATTERNS = [
    (re.compile(r"\bassume\s*\("), "assume(..)"),
    (re.compile(r"\badmit\s*\("), "admit()"),
    (re.compile(r"external_body"), "#[verifier::external_body]"),
    (re.compile(r"\bassume_specification\b"), "assume_specification"),
    (re.compile(r"\buninterp\b"), "uninterp spec fn"),
    (re.compile(r"external_type_specification|external_trait_specification"), "external type/trait specification"),
    (re.compile(r"\baxiom\b"), "axiom"),
]


def scan_assumptions(text):
    found = {}
    cur_item = None
    for k, l in enumerate(text.split("\n")):
        s = l.strip()
        if s.startswith("//"):
            continue
        for rx, name in ASSUME_PATTERNS:
            if rx.search(l):
                m = re.search(r"\[([^\]]+)\]", l) if name == "assume_specification" else None
                what = m.group(1).strip() if m else None
                key = name + (": " + what if what else "")
                found.setdefault(key, 0)
                found[key] += 1
    return [f"{k} x{v}" if v > 1 else k for k, v in sorted(found.items())]


def run_vx_unit(unit, repo, workdir, rlimit):
    """returns component result dict"""
    vspec = os.path.join(VERIF, "contracts", unit + ".vspec")
    comp = {"component": "vx:" + unit, "backend": "verus", "undecided": None, "failures": [], "obligations": [],
            "functions": [], "items": [], "rewrites": [], "assumptions": [], "solver_time_s": 0.0, "wall_s": 0.0,
            "canaries": None, "cmd": None, "bounded": False}
    t0 = time.time()
    try:
        spec, gen, text, origins, out = vxgen.build_unit(vspec, repo, workdir, canary=False)
        cspec, cgen, ctext, corigins, cout = vxgen.build_unit(vspec, repo, workdir, canary=True)
    except Undecided as e:
        comp["undecided"] = f"extraction: {e}"
        return comp
    comp["functions"] = gen.functions
    comp["items"] = gen.items
    comp["rewrites"] = gen.rewrites
    comp["assumptions"] = scan_assumptions(text)
    comp["generated_file"] = out
    with cf.ThreadPoolExecutor(max_workers=2) as ex:
        f1 = ex.submit(vxgen.run_verus, out, rlimit)
        f2 = ex.submit(vxgen.run_verus, cout, rlimit)
        res, cres = f1.result(), f2.result()
    comp["cmd"] = res["cmd"]
    an = vxgen.analyse(text, origins, res, gen)
    can = vxgen.analyse(ctext, corigins, cres, cgen)
    vr = res["json"].get("verification-results", {})
    tm = res["json"].get("times-ms", {})
    comp["solver_time_s"] = round((tm.get("total-verify", 0) or 0) / 1000.0, 3)
    comp["verus_verified"] = vr.get("verified")
    comp["verus_errors"] = vr.get("errors")
    # hard (non-verification) errors -> undecided
    if an["hard"]:
        comp["undecided"] = "verus rejected the generated file: " + an["hard"][0]["msg"]
        comp["hard"] = an["hard"][:3]
        return comp
    if not vr:
        comp["undecided"] = "verus produced no result: " + res["stderr"][-500:]
        return comp
    rl = [e for e in an["errors"] if "rlimit" in e["msg"].lower() or "resource limit" in e["msg"].lower()]
    # obligations: labelled clauses + one safety obligation per verified function
    labels = []
    seen = set()
    for l in gen.labels:
        if l["label"] not in seen:
            seen.add(l["label"])
            labels.append(l)
    obl = {}
    for l in labels:
        obl[f"{unit}::{l['label']}"] = {"id": f"{unit}::{l['label']}", "fn": l["fn"], "kind": l["kind"],
                                       "status": "discharged"}
    for f in gen.functions:
        if not f["external_body"]:
            oid = f"{unit}::{f['fn']}::body_safe"
            obl[oid] = {"id": oid, "fn": f["fn"], "kind": "no panic / overflow / bounds / callee preconditions / unlabelled asserts",
                        "status": "discharged"}
    for e in an["errors"]:
        if e["kind"] == "recommend":
            continue
        if "rlimit" in e["msg"].lower() or "resource limit" in e["msg"].lower():
            comp["undecided"] = f"resource limit in {e['fn']}"
            continue
        if e["label"]:
            oid = f"{unit}::{e['label']}"
        elif e["fn"]:
            oid = f"{unit}::{e['fn']}::body_safe"
        else:
            oid = f"{unit}::<unknown>"
        if oid not in obl:
            obl[oid] = {"id": oid, "fn": e["fn"], "kind": e["kind"], "status": "discharged"}
        obl[oid]["status"] = "failed"
        comp["failures"].append({"obligation": oid, "fn": e["fn"], "kind": e["kind"], "msg": e["msg"],
                                 "src": e["src"], "text": e["text"], "verifier_output": e["rendered"]})
    if vr.get("errors", 0) and not comp["failures"] and not comp["undecided"]:
        comp["undecided"] = "verus reported errors that could not be mapped: " + res["stderr"][-800:]
    comp["obligations"] = list(obl.values())
    # vacuity guards
    if len(obl) == 0:
        comp["undecided"] = "vacuity: zero obligations generated"
    if can["hard"]:
        comp["undecided"] = comp["undecided"] or ("canary copy rejected: " + can["hard"][0]["msg"])
    hit = {e["canary"] for e in can["errors"] if e["canary"] is not None}
    bad = []
    for c in cgen.canaries:
        reported = c["id"] in hit
        if reported == c["dead"]:
            bad.append({**c, "reported": reported})
    comp["canaries"] = {"total": len(cgen.canaries), "failing_as_required": len(cgen.canaries) - len(bad),
                        "problems": bad}
    if bad and not comp["failures"]:
        # a path whose assert(false) verifies is vacuous: the proof of that function is void
        comp["undecided"] = comp["undecided"] or (
            "vacuity: path canary verified (unreachable or inconsistent path) in " +
            ", ".join(sorted({b['fn'] + '@' + str(b['line']) for b in bad})))
    comp["wall_s"] = round(time.time() - t0, 2)
    return comp


# ------------------------------------------------------------------------------------------------
# orchestration
# ------------------------------------------------------------------------------------------------

def run_component(c, repo, workdir, tier):
    kind = c["kind"]
    if kind == "vx":
        return run_vx_unit(c["unit"], repo, workdir, c.get("rlimit", 60 if tier == "quick" else 120))
    if kind == "kx":
        import kxrun
        return kxrun.run_kx(c, repo, workdir, tier)
    if kind == "bx":
        import bxrun
        return bxrun.run_bx(c, repo, workdir, tier)
    raise Undecided(f"unknown component kind {kind}")


def run_property(pid, tier, repo, seed, write_evidence=True, only=None):
    t0 = time.time()
    if pid not in registry.PROPS:
        print(f"property {pid} is not claimed (see MANIFEST.json not_applicable)")
        return 2
    P = registry.PROPS[pid]
    workdir = os.path.join(WORK, pid)
    shutil.rmtree(workdir, ignore_errors=True)
    os.makedirs(workdir, exist_ok=True)
    comps = [c for c in P["components"] if tier == "thorough" or not c.get("thorough_only")]
    if only:
        comps = [c for c in comps if c.get("unit") in only or c.get("name") in only]
    if not comps:
        print(f"{pid}: no component selected (vacuous run)")
        return 2
    results = []
    # vx components are cheap and run in a thread pool; kx/bx components manage their own parallelism
    with cf.ThreadPoolExecutor(max_workers=8) as ex:
        futs = {}
        for c in comps:
            if c["kind"] == "vx":
                futs[ex.submit(run_component, c, repo, workdir, tier)] = c
        for c in comps:
            if c["kind"] != "vx":
                try:
                    results.append(run_component(c, repo, workdir, tier))
                except Undecided as e:
                    results.append({"component": c["kind"] + ":" + c.get("name", "?"), "undecided": str(e),
                                    "failures": [], "obligations": [], "functions": [], "assumptions": [],
                                    "backend": c["kind"], "solver_time_s": 0, "bounded": False})
        for f in cf.as_completed(futs):
            results.append(f.result())
    results.sort(key=lambda r: r["component"])
    known = [k for k in load_known() if k.get("property") == pid and k.get("status") == "open"]
    known_ids = {k["obligation"]: k for k in known}
    undecided = [r for r in results if r.get("undecided")]
    failures = []
    for r in results:
        for f in r["failures"]:
            failures.append((r, f))
    known_hits = []
    violations = []
    for r, f in failures:
        k = known_ids.get(f["obligation"])
        if k is not None and finding_matches(k, f):
            known_hits.append((k, f))
        else:
            violations.append((r, f))
    # evidence
    # obligations the check demands on this tree: the cells listed as open known findings are reported separately
    # (KNOWN-FINDING lines) and are not counted as obligations, discharged or otherwise
    known_failed = {f["obligation"] for k, f in known_hits}
    n_obl = sum(1 for r in results if not r.get("bounded") for o in r["obligations"] if o["id"] not in known_failed)
    n_dis = sum(1 for r in results if not r.get("bounded") for o in r["obligations"]
                if o["status"] == "discharged" and o["id"] not in known_failed)
    wall = time.time() - t0
    rc = 0
    lines = []
    seen_k = set()
    for k, f in known_hits:
        if k["obligation"] in seen_k:
            continue
        seen_k.add(k["obligation"])
        lines.append(f"KNOWN-FINDING: property={pid} {k['obligation']}: {k.get('what', '')}")
    if violations:
        rc = 1
        os.makedirs(REPLAYS, exist_ok=True)
        # one replay file per run, naming every failed obligation
        rp = os.path.join(REPLAYS, f"{pid}-{int(time.time())}.json")
        rep = {"property": pid, "tier": tier, "failed_obligations": []}
        found_input = False
        for r, f in violations:
            ent = {"obligation": f["obligation"], "component": r["component"], "backend": r["backend"],
                   "function": f.get("fn"), "kind": f.get("kind"), "message": f.get("msg"),
                   "source": f.get("src"), "verifier_output": f.get("verifier_output"),
                   "counterexample": f.get("counterexample"), "replay_test": f.get("replay_test")}
            if f.get("counterexample") or f.get("replay_test"):
                found_input = True
            rep["failed_obligations"].append(ent)
        rep["failing_input_found"] = found_input
        with open(rp, "w") as fh:
            json.dump(rep, fh, indent=1)
        for r, f in violations:
            print(f"FAILED-OBLIGATION {f['obligation']} ({r['backend']}): {f.get('msg')} at {f.get('src')}")
        lines.append(f"VIOLATION property={pid} replay={rp}" + ("" if found_input else " no-failing-input-found"))
    elif undecided:
        rc = 2
        for r in undecided:
            lines.append(f"UNDECIDED {r['component']}: {r['undecided']}")
    if write_evidence:
        write_evid(pid, tier, seed, P, results, n_obl, n_dis, wall, len(violations), known_hits, undecided)
    for l in lines:
        print(l)
    print(f"{pid} tier={tier}: components={len(results)} obligations={n_obl} discharged={n_dis} "
          f"violations={len(violations)} known={len(seen_k)} undecided={len(undecided)} wall={wall:.1f}s rc={rc}")
    return rc


def finding_matches(k, f):
    """a known finding suppresses exactly one obligation (and, where given, one witness)."""
    w = k.get("witness_contains")
    if w:
        blob = json.dumps(f.get("counterexample") or "") + (f.get("verifier_output") or "")
        return w in blob
    return True


def write_evid(pid, tier, seed, P, results, n_obl, n_dis, wall, nviol, known_hits, undecided):
    os.makedirs(EVID, exist_ok=True)
    funcs = []
    samples = []
    assumptions = list(P.get("assumptions", []))
    trusted = set(P.get("trusted_base", []))
    by_backend = {}
    bounded_units = []
    solver = 0.0
    cmds = []
    rewrites = []
    canary_total = 0
    canary_ok = 0
    for r in results:
        solver += r.get("solver_time_s", 0) or 0
        if r.get("cmd"):
            cmds.append(r["cmd"])
        for f in r.get("functions", []):
            funcs.append({**f, "component": r["component"]})
        for a in r.get("assumptions", []):
            trusted.add(f"{r['component']}: {a}")
        for rw in r.get("rewrites", []):
            if rw["rule"] != "R3" or "doc" not in rw["what"]:
                rewrites.append({**rw, "component": r["component"]})
        if r.get("bounded"):
            bounded_units.append({"component": r["component"], "bound": r.get("bound"),
                                  "evaluations": r.get("evaluations"), "obligations": len(r["obligations"])})
        else:
            b = by_backend.setdefault(r["backend"], {"obligations": 0, "discharged": 0})
            b["obligations"] += len(r["obligations"])
            b["discharged"] += sum(1 for o in r["obligations"] if o["status"] == "discharged")
        if r.get("canaries"):
            canary_total += r["canaries"]["total"]
            canary_ok += r["canaries"]["failing_as_required"]
        for o in r["obligations"][:4]:
            samples.append({"obligation": o["id"], "status": o["status"], "backend": r["backend"],
                            "kind": o.get("kind")})
    all_obl = [{"id": o["id"], "status": o["status"], "backend": r["backend"], "bounded": bool(r.get("bounded"))}
               for r in results for o in r["obligations"]]
    level = P.get("level", "proof")
    cov = {
        "obligations": n_obl,
        "discharged": n_dis,
        "checker_cmd": " ; ".join(sorted(set(cmds)))[:4000] or "n/a",
        "trusted_base": sorted(trusted),
        "samples": samples[:40],
        "functions_under_contract": funcs,
        "by_backend": by_backend,
        "bounded_units": bounded_units,
        "solver_time_s": round(solver, 2),
        "rewrites_applied": rewrites,
        "path_canaries": {"total": canary_total, "failing_as_required": canary_ok},
        "all_obligations": all_obl,
        "known_findings_hit": [k["obligation"] for k, _ in known_hits],
        "undecided": [{"component": r["component"], "reason": r["undecided"]} for r in undecided],
        "explanation": P.get("explanation", ""),
    }
    if level != "proof" or n_obl == 0:
        ev = sum((r.get("evaluations") or 0) for r in results) or max(1, len(all_obl))
        cov["evaluations"] = ev
        cov["distinct_nontrivial"] = max(len(all_obl), sum((r.get("distinct") or 0) for r in results))
        cov["rule"] = P.get("rule", "one case per generated obligation")
    evd = {
        "property_id": pid,
        "tier": tier,
        "seed": seed,
        "level": level,
        "coverage": cov,
        "assumptions": assumptions,
        "wall_s": round(wall, 2),
        "violations": nviol,
    }
    with open(os.path.join(EVID, pid + ".json"), "w") as fh:
        json.dump(evd, fh, indent=1, default=str)


def replay(pid, path, repo):
    rep = json.load(open(path))
    print(f"replay {path}: property {rep['property']}")
    rc = 0
    done = {}
    for f in rep["failed_obligations"]:
        print(f"- obligation {f['obligation']} ({f['backend']}): {f['message']}")
        if f.get("replay_test"):
            import kxrun
            key = f["replay_test"].get("harness")
            if key not in done:
                done[key] = kxrun.replay_test(f, repo)
            else:
                print("  (same harness as above)")
            rc |= done[key]
        else:
            print("  no concrete input recorded (no-failing-input-found); verifier output:")
            print("  " + (f.get("verifier_output") or "").replace("\n", "\n  "))
            rc = 1
    return rc
