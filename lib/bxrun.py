"""bx: bounded native contract checking (stand-in where neither Verus nor Kani can take the function).

A harness file /verif/bx/<package>/<name>.rs is attached (in a scratch copy of /repo) to the module owning the private
items as `#[cfg(test)] #[path=..] mod verif_bx_<name>;` and run with `cargo test`. It enumerates EVERY operation sequence
up to a stated depth over a stated small universe and checks the contract (abstract model + invariant) after each step.
Protocol on stdout (with --nocapture):
  BX-OBL <label> ok evaluations=<n> distinct=<m>
  BX-FAIL <label> witness=<free text: the failing operation history>
  BX-SAMPLE <free text>
Results are labelled bounded and are never counted as proved.
"""
import fcntl
import os
import re
import shutil
import subprocess
import time

from vxgen import Undecided
from kxrun import sync_repo, SCRATCH, CACHE, VERIF


def run_bx(c, repo, workdir, tier):
    name = c["name"]
    comp = {"component": "bx:" + name, "backend": "bounded_native", "undecided": None, "failures": [], "obligations": [],
            "functions": c.get("functions", []), "assumptions": list(c.get("assumptions", [])), "solver_time_s": 0.0,
            "wall_s": 0.0, "cmd": None, "bounded": True, "bound": c.get("bound"), "evaluations": 0, "distinct": 0,
            "samples": []}
    t0 = time.time()
    pkg = c["package"]
    hfile = os.path.join(VERIF, c["harness_file"])
    if not os.path.exists(hfile):
        comp["undecided"] = "harness file missing"
        return comp
    os.makedirs(SCRATCH, exist_ok=True)
    os.makedirs(CACHE, exist_ok=True)
    # one scratch path and one target dir for all bounded harnesses: the workspace is then compiled once, not per package
    lock = open(os.path.join(CACHE, "bx-shared.lock"), "w")
    fcntl.flock(lock, fcntl.LOCK_EX)
    dest = os.path.join(SCRATCH, "bx-repo")
    try:
        sync_repo(repo, dest, os.path.join(CACHE, "bx-target", "shared"))
        attach = os.path.join(dest, c["crate_dir"], c["attach"])
        if not os.path.exists(attach):
            comp["undecided"] = f"attach point {c['attach']} missing (lost anchor)"
            return comp
        modname = "verif_bx_" + re.sub(r"[^A-Za-z0-9_]", "_", name)
        with open(attach, "a") as f:
            f.write(f"\n#[cfg(test)]\n#[path = \"{hfile}\"]\nmod {modname};\n")
        for extra in c.get("extra_attach", []):
            with open(os.path.join(dest, c["crate_dir"], extra["file"]), "a") as f:
                f.write("\n" + extra["text"] + "\n")
        env = dict(os.environ)
        env.update({"CARGO_NET_OFFLINE": "true", "CARGO_TARGET_DIR": os.path.join(CACHE, "bx-target", "shared"),
                    "VERIF_BX_DEPTH": str(c.get("depth_thorough" if tier == "thorough" else "depth_quick", c.get("depth", 4)))})
        env.update(c.get("env", {}))
        cmd = ["cargo", "test", "--offline", "-p", pkg, "--lib", modname, "--", "--nocapture", "--test-threads", "1"]
        comp["cmd"] = " ".join(cmd)
        tmo = c.get("timeout", 900 if tier == "quick" else 3600)
        try:
            r = subprocess.run(cmd, cwd=dest, env=env, capture_output=True, text=True, timeout=tmo)
        except subprocess.TimeoutExpired:
            comp["undecided"] = f"bounded harness timed out after {tmo}s"
            return comp
        out = r.stdout + "\n" + r.stderr
        with open(os.path.join(workdir, f"bx-{name}.log"), "w") as f:
            f.write(out)
        if re.search(r"error(\[E\d+\])?:.*\n", out) and "test result" not in out:
            comp["undecided"] = "bounded harness does not compile against the current tree: " + \
                                "\n".join(l for l in out.split("\n") if l.startswith("error"))[:600]
            return comp
        obl = {}
        for m in re.finditer(r"^BX-OBL (\S+) ok evaluations=(\d+) distinct=(\d+)", out, re.M):
            oid = f"{name}::{m.group(1)}"
            obl[oid] = {"id": oid, "fn": name, "kind": "bounded contract check", "status": "discharged"}
            comp["evaluations"] += int(m.group(2))
            comp["distinct"] += int(m.group(3))
        for m in re.finditer(r"^BX-FAIL (\S+) witness=(.*)$", out, re.M):
            oid = f"{name}::{m.group(1)}"
            obl[oid] = {"id": oid, "fn": name, "kind": "bounded contract check", "status": "failed"}
            comp["failures"].append({"obligation": oid, "fn": name, "kind": "bounded contract check",
                                     "msg": "contract violated on a concrete operation history", "src": c.get("attach"),
                                     "verifier_output": m.group(2)[:3000],
                                     "counterexample": {"history": m.group(2)[:3000]},
                                     "replay_bx": {"component": name}})
        comp["samples"] = re.findall(r"^BX-SAMPLE (.*)$", out, re.M)[:5]
        comp["obligations"] = list(obl.values())
        if not obl:
            comp["undecided"] = "vacuity: bounded harness reported no obligations: " + out[-600:]
        elif "test result: FAILED" in out and not comp["failures"]:
            comp["undecided"] = "bounded harness failed without a BX-FAIL line: " + out[-800:]
    finally:
        shutil.rmtree(dest, ignore_errors=True)
        fcntl.flock(lock, fcntl.LOCK_UN)
        lock.close()
    comp["wall_s"] = round(time.time() - t0, 2)
    return comp
