"""kx: Kani harness groups overlaid into a scratch copy of /repo's working tree.

A harness file lives in /verif/kx/<package>/<name>.rs. It is attached to the module that owns the private items
by appending `#[cfg(kani)] #[path = ".."] mod verif_kx_<name>;` to that module file IN THE SCRATCH COPY only.
Obligations are the assertions whose message starts with "OBL "; kani::cover! messages starting with "COV "
are the reachability (anti-vacuity) witnesses and must all be SATISFIED.
"""
import concurrent.futures as cf
import fcntl
import json
import os
import re
import shutil
import subprocess
import time

from vxgen import Undecided

VERIF = os.path.dirname(os.path.dirname(os.path.abspath(__file__)))
SCRATCH = os.environ.get("VERIF_SCRATCH", "/scratch/verif")
CACHE = os.path.join(VERIF, ".cache")


def sync_repo(repo, dest, target_dir=None):
    """copy the tree under check to a scratch path. rsync keeps the source mtimes, and cargo decides freshness by mtime: a file
    that was CHANGED and then changed BACK (a seeded patch applied to one scratch copy, the pristine tree copied next) would look
    older than the artifacts built from the patched text and the stale artifacts would be reused. So the content hash of every
    source file is remembered next to the build output; any file whose content differs from what the last build saw is touched."""
    os.makedirs(dest, exist_ok=True)
    # NOT `-a`: with -t rsync would set a touched file BACK to the (old) source mtime at the next sync, and an artifact of ANOTHER
    # feature variant of that crate, built from the patched text and not rebuilt since, would look fresh again (seen once: C10-12's
    # swimos_recon). With --checksum and without -t a file of the copy is rewritten -- and gets the current time -- exactly when its
    # content changes, and never goes back in time: every artifact older than the last content change is stale for cargo.
    r = subprocess.run(["rsync", "-rlpgoD", "--checksum", "--delete", "--exclude", "/target", "--exclude", ".git", repo.rstrip("/") + "/",
                        dest + "/"], capture_output=True, text=True)
    if r.returncode != 0:
        raise Undecided("rsync failed: " + r.stderr[-300:])
    if target_dir is None:
        return
    import hashlib
    os.makedirs(target_dir, exist_ok=True)
    mpath = os.path.join(target_dir, "verif-source-manifest.json")
    try:
        prev = json.load(open(mpath))
    except Exception:
        prev = {}
    cur = {}
    now = time.time()
    for root, dirs, files in os.walk(dest):
        dirs[:] = [d for d in dirs if d not in ("target", ".git")]
        for f in files:
            if not (f.endswith(".rs") or f.endswith(".toml") or f == "Cargo.lock" or f.endswith(".recon")):
                continue
            fp = os.path.join(root, f)
            rel = os.path.relpath(fp, dest)
            try:
                h = hashlib.sha1(open(fp, "rb").read()).hexdigest()
            except OSError:
                continue
            cur[rel] = h
            # (no manifest yet: nothing is known about what the existing artifacts were built from -- rebuild everything once)
            if prev.get(rel) != h:
                os.utime(fp, (now, now))
    # files that disappeared: touch their directory's lib.rs/mod.rs is not needed (rustc fails or rebuilds on missing files)
    with open(mpath, "w") as fh:
        json.dump(cur, fh)


def harness_names(path):
    txt = open(path).read()
    names = []
    for m in re.finditer(r"#\[kani::proof(?:_for_contract\([^)]*\))?\]\s*(?:#\[[^\]]*\]\s*)*(?:pub\s+)?fn\s+([A-Za-z0-9_]+)", txt):
        names.append(m.group(1))
    # macro generated harnesses: lines of the form `// HARNESS name`
    for m in re.finditer(r"^\s*//\s*HARNESS\s+([A-Za-z0-9_]+)", txt, re.M):
        if m.group(1) not in names:
            names.append(m.group(1))
    return names


def parse_kani_output(out):
    """split by harness; returns {harness: {status, checks:[{desc,status}], failed:[...], time}}"""
    res = {}
    cur = None
    blocks = re.split(r"^Checking harness ", out, flags=re.M)
    for b in blocks[1:]:
        name = b.split("...", 1)[0].strip()
        short = name.split("::")[-1]
        checks = []
        for m in re.finditer(r"^Check \d+: (\S+)\n\s*- Status: (\w+)\n\s*- Description: \"(.*)\"", b, re.M):
            checks.append({"id": m.group(1), "status": m.group(2), "desc": m.group(3).strip('"')})
        failed = re.findall(r"^Failed Checks: (.*)$", b, re.M)
        st = re.search(r"^VERIFICATION:- (\w+)", b, re.M)
        tm = re.search(r"^Verification Time: ([0-9.]+)s", b, re.M)
        res[short] = {"full": name, "status": st.group(1) if st else None, "checks": checks, "failed": failed,
                      "time": float(tm.group(1)) if tm else 0.0, "raw_tail": b[-3000:]}
    return res


def parse_kani_terse_parallel(out):
    """-j N --output-format terse: result blocks are printed per thread; the harness of a block is the last
    'Thread K: Checking harness X' line of that thread. Only failed checks are listed; every assertion of a harness
    that is reported SUCCESSFUL was discharged."""
    res = {}
    cur = {}
    lines = out.split("\n")
    i = 0
    while i < len(lines):
        l = lines[i]
        m = re.match(r"^(?:Thread (\d+): )?Checking harness (\S+?)\.\.\.", l)
        if m:
            cur[m.group(1) or "0"] = m.group(2)
            i += 1
            continue
        m = re.match(r"^(?:Thread (\d+): )?\s*$", l)
        if m and i + 1 < len(lines) and lines[i + 1].startswith("VERIFICATION RESULT:"):
            th = m.group(1) or "0"
            j = i + 1
            block = []
            while j < len(lines) and not lines[j].startswith("Verification Time:"):
                block.append(lines[j])
                j += 1
            if j < len(lines):
                block.append(lines[j])
            b = "\n".join(block)
            name = cur.get(th)
            if name:
                failed = [f.strip().strip('"') for f in re.findall(r"^Failed Checks: (.*)$", b, re.M)]
                st = re.search(r"^VERIFICATION:- (\w+)", b, re.M)
                tm = re.search(r"^Verification Time: ([0-9.]+)s", b, re.M)
                cov = re.search(r"\*\* (\d+) of (\d+) cover properties satisfied", b)
                checks = [{"id": "failed", "status": "FAILURE", "desc": f} for f in failed]
                if st and st.group(1) == "SUCCESSFUL":
                    checks.append({"id": "all", "status": "SUCCESS", "desc": "OBL all_assertions_of_harness"})
                elif st:
                    checks.append({"id": "all", "status": "SUCCESS", "desc": "OBL all_other_assertions_of_harness"})
                if cov:
                    checks.append({"id": "cover", "status": "SATISFIED" if cov.group(1) == cov.group(2) else "UNSATISFIABLE",
                                   "desc": f"COV {cov.group(1)} of {cov.group(2)} cover properties"})
                res[name.split("::")[-1]] = {"full": name, "status": st.group(1) if st else None, "checks": checks, "failed": failed,
                                             "time": float(tm.group(1)) if tm else 0.0, "raw_tail": b[-3000:]}
            i = j + 1
            continue
        i += 1
    return res


def run_kx(c, repo, workdir, tier):
    name = c["name"]
    comp = {"component": "kx:" + name, "backend": "kani_bounded" if c.get("bounded") else "kani", "undecided": None,
            "failures": [], "obligations": [], "functions": c.get("functions", []), "assumptions": list(c.get("assumptions", [])),
            "solver_time_s": 0.0, "wall_s": 0.0, "cmd": None, "bounded": bool(c.get("bounded")), "bound": c.get("bound")}
    t0 = time.time()
    pkg = c["package"]
    hfile = os.path.join(VERIF, c["harness_file"])
    if not os.path.exists(hfile):
        comp["undecided"] = "harness file missing"
        return comp
    harnesses = c.get("harnesses") or harness_names(hfile)
    if tier == "quick" and c.get("quick_harnesses"):
        harnesses = [h for h in harnesses if any(re.fullmatch(p, h) for p in c["quick_harnesses"])]
    if tier == "thorough" and c.get("thorough_harnesses"):
        harnesses = [h for h in harnesses if any(re.fullmatch(p, h) for p in c["thorough_harnesses"])]
    if os.environ.get("VERIF_KX_ONLY"):
        harnesses = [h for h in harnesses if re.fullmatch(os.environ["VERIF_KX_ONLY"], h)]
    if not harnesses:
        comp["undecided"] = "vacuity: no harnesses found"
        return comp
    os.makedirs(SCRATCH, exist_ok=True)
    os.makedirs(CACHE, exist_ok=True)
    lock = open(os.path.join(CACHE, f"kx-{pkg}.lock"), "w")
    fcntl.flock(lock, fcntl.LOCK_EX)
    dest = os.path.join(SCRATCH, "kx-" + pkg)
    try:
        sync_repo(repo, dest, os.path.join(CACHE, "kani-target", pkg))
        attach = os.path.join(dest, c["crate_dir"], c["attach"])
        if not os.path.exists(attach):
            comp["undecided"] = f"attach point {c['attach']} missing (lost anchor)"
            return comp
        modname = "verif_kx_" + re.sub(r"[^A-Za-z0-9_]", "_", name)
        st = os.stat(attach)
        with open(attach, "a") as f:
            f.write(f"\n#[cfg(kani)]\n#[path = \"{hfile}\"]\nmod {modname};\n")
        for extra in c.get("extra_attach", []):
            p = os.path.join(dest, c["crate_dir"], extra["file"])
            with open(p, "a") as f:
                f.write("\n" + extra["text"] + "\n")
        if c.get("crate_attrs"):
            lib = os.path.join(dest, c["crate_dir"], "src", "lib.rs")
            s = open(lib).read()
            open(lib, "w").write(c["crate_attrs"] + "\n" + s)
        shutil.copy(os.path.join(repo, "Cargo.lock"), os.path.join(dest, "Cargo.lock"))
        target = os.path.join(CACHE, "kani-target", pkg)
        env = dict(os.environ)
        env.update({"CARGO_NET_OFFLINE": "true", "CARGO_TARGET_DIR": target})
        tmo = c.get("timeout", 300 if tier == "quick" else 1200)
        cmd = ["cargo", "kani", "-p", pkg, "-Z", "function-contracts", "-Z", "stubbing"] + c.get("flags", [])
        for h in harnesses:
            cmd += ["--harness", modname + "::" + h] if c.get("qualify", True) else ["--harness", h]
        par = c.get("mode") == "par"
        if par:
            cmd += ["-j", str(c.get("jobs", 14)), "--output-format", "terse"]
        else:
            cmd += ["--output-format", "regular"]
        comp["cmd"] = "CARGO_NET_OFFLINE=true " + " ".join(cmd[:12]) + (" ..." if len(cmd) > 12 else "")
        try:
            r = subprocess.run(cmd, cwd=dest, env=env, capture_output=True, text=True, timeout=tmo)
        except subprocess.TimeoutExpired:
            comp["undecided"] = f"kani timed out after {tmo}s"
            subprocess.run("pkill -f cbmc; pkill -f kani-driver", shell=True)
            return comp
        out = r.stdout + "\n" + r.stderr
        with open(os.path.join(workdir, f"kx-{name}.log"), "w") as f:
            f.write(out)
        res = parse_kani_terse_parallel(out) if par else parse_kani_output(out)
        if not res:
            comp["undecided"] = "kani did not run any harness (build error?): " + out[-1500:]
            return comp
        ignore = [re.compile(p) for p in c.get("ignore_checks", [])]
        obl = {}
        covers_bad = []
        for h in harnesses:
            hr = res.get(h)
            if hr is None or hr["status"] is None:
                comp["undecided"] = f"harness {h} produced no verdict"
                continue
            comp["solver_time_s"] += hr["time"]
            nobl = 0
            for ck in hr["checks"]:
                d = ck["desc"]
                if d.startswith("OBL "):
                    lab = d[4:].split(" ")[0]
                    oid = f"{name}::{h}::{lab}"
                    o = obl.setdefault(oid, {"id": oid, "fn": h, "kind": "assertion", "status": "discharged"})
                    nobl += 1
                    if ck["status"] == "FAILURE":
                        o["status"] = "failed"
                    elif ck["status"] not in ("SUCCESS",):
                        # UNREACHABLE / UNDETERMINED: not a discharge of anything meaningful
                        if ck["status"] == "UNREACHABLE":
                            covers_bad.append(f"{h}: obligation {lab} unreachable")
                        else:
                            comp["undecided"] = f"harness {h}: check {lab} is {ck['status']}"
                elif d.startswith("COV "):
                    if ck["status"] != "SATISFIED":
                        covers_bad.append(f"{h}: cover {d[4:]} is {ck['status']}")
            # everything else (panics, overflow, bounds, unwinding) is one safety obligation per harness
            oid = f"{name}::{h}::body_safe"
            o = obl.setdefault(oid, {"id": oid, "fn": h, "kind": "no panic / overflow / bounds / unwinding assertion",
                                     "status": "discharged"})
            other_fail = []
            for ck in hr["checks"]:
                d = ck["desc"]
                if d.startswith("OBL ") or d.startswith("COV "):
                    continue
                if ck["status"] == "FAILURE" and not any(rx.search(d) or rx.search(ck["id"]) for rx in ignore):
                    other_fail.append(d)
                if ck["status"] == "UNDETERMINED" and not comp["undecided"]:
                    pass
            if other_fail and all("unwinding assertion" in d for d in other_fail):
                # the harness bound is too small for this code: a tool limit, not a property violation
                comp["undecided"] = comp["undecided"] or f"harness {h}: unwinding bound exceeded ({other_fail[0]})"
                other_fail = []
            if other_fail:
                o["status"] = "failed"
            if nobl == 0:
                comp["undecided"] = comp["undecided"] or f"vacuity: harness {h} has no OBL assertion in its output"
            for oid2, o2 in list(obl.items()):
                if o2["fn"] == h and o2["status"] == "failed":
                    lab = oid2.split("::")[-1]
                    msgs = [f for f in hr["failed"] if (lab in f) or lab == "body_safe"]
                    comp["failures"].append({"obligation": oid2, "fn": h, "kind": "kani check",
                                             "msg": "; ".join(msgs or other_fail)[:500], "src": c.get("attach"),
                                             "verifier_output": hr["raw_tail"][-2500:], "harness": modname + "::" + h,
                                             "kx": name})
        comp["obligations"] = list(obl.values())
        if covers_bad and not comp["failures"]:
            comp["undecided"] = comp["undecided"] or ("vacuity: " + "; ".join(covers_bad[:5]))
        comp["covers_bad"] = covers_bad
        # counterexamples: re-run failing harnesses with concrete playback (sequential; incompatible with -j)
        if comp["failures"]:
            done = set()
            for f in comp["failures"]:
                h = f["harness"]
                if h in done or len(done) >= c.get("max_playback", 6):
                    continue
                done.add(h)
                cmd2 = ["cargo", "kani", "-p", pkg, "-Z", "function-contracts", "-Z", "stubbing", "-Z", "concrete-playback",
                        "--concrete-playback=print", "--harness", h] + c.get("flags", [])
                try:
                    r2 = subprocess.run(cmd2, cwd=dest, env=env, capture_output=True, text=True, timeout=tmo)
                    m = re.findall(r"((?:///.*\n)*#\[test\]\s*fn kani_concrete_playback_[\s\S]*?\n\})", r2.stdout)
                    if m:
                        # Kani de-duplicates playback tests by value; the failing input is one of them
                        # (possibly listed under a cover property with identical values): keep them all.
                        tests = "\n".join(m)
                        vals = [re.findall(r"^\s*//\s+(.+)$", t, re.M) for t in m]
                        for g in comp["failures"]:
                            if g["harness"] == h:
                                g["counterexample"] = {"candidate_inputs": vals, "playback_tests": tests}
                                g["replay_test"] = {"package": pkg, "crate_dir": c["crate_dir"], "attach": c["attach"],
                                                    "harness_file": c["harness_file"], "modname": modname,
                                                    "test": tests, "harness": h,
                                                    "crate_attrs": c.get("crate_attrs"),
                                                    "extra_attach": c.get("extra_attach", [])}
                except subprocess.TimeoutExpired:
                    pass
    finally:
        shutil.rmtree(dest, ignore_errors=True)
        fcntl.flock(lock, fcntl.LOCK_UN)
        lock.close()
    comp["solver_time_s"] = round(comp["solver_time_s"], 2)
    comp["wall_s"] = round(time.time() - t0, 2)
    return comp


def replay_test(f, repo):
    """re-execute a Kani counterexample natively against the real code (cargo kani playback)."""
    rt = f["replay_test"]
    pkg = rt["package"]
    dest = os.path.join(SCRATCH, "kxreplay-" + pkg)
    try:
        sync_repo(repo, dest, os.path.join(CACHE, "kani-playback", pkg))
        attach = os.path.join(dest, rt["crate_dir"], rt["attach"])
        hfile = os.path.join(VERIF, rt["harness_file"])
        # the playback test must live in the harness module: write a copy of the harness file with the test appended
        tmp_h = os.path.join(dest, "verif_kx_replay.rs")
        test = rt["test"]
        open(tmp_h, "w").write(open(hfile).read() + "\n" + test + "\n")
        with open(attach, "a") as fh:
            fh.write(f"\n#[cfg(kani)]\n#[path = \"{tmp_h}\"]\nmod {rt['modname']};\n")
        for extra in rt.get("extra_attach") or []:
            with open(os.path.join(dest, rt["crate_dir"], extra["file"]), "a") as fh:
                fh.write("\n" + extra["text"] + "\n")
        if rt.get("crate_attrs"):
            lib = os.path.join(dest, rt["crate_dir"], "src", "lib.rs")
            s = open(lib).read()
            open(lib, "w").write(rt["crate_attrs"] + "\n" + s)
        shutil.copy(os.path.join(repo, "Cargo.lock"), os.path.join(dest, "Cargo.lock"))
        env = dict(os.environ)
        env.update({"CARGO_NET_OFFLINE": "true", "CARGO_TARGET_DIR": os.path.join(CACHE, "kani-playback", pkg)})
        cmd = ["cargo", "kani", "playback", "-Z", "concrete-playback", "-p", pkg, "--lib", "--",
               "kani_concrete_playback_"]
        r = subprocess.run(cmd, cwd=dest, env=env, capture_output=True, text=True, timeout=1800)
        out = r.stdout + r.stderr
        os.makedirs(os.path.join(VERIF, ".work"), exist_ok=True)
        open(os.path.join(VERIF, ".work", "last_replay.log"), "w").write(out)
        keep = [l for l in out.split("\n") if len(l) < 400 and re.search(r"panicked|assert|OBL|test result|^error|^test |left:|right:", l)]
        print("\n".join("  " + l for l in keep[-40:]))
        if re.search(r"test result: FAILED|panicked at", out):
            print(f"  replay: counterexample for {f['obligation']} REPRODUCES on the real code")
            return 1
        print(f"  replay: counterexample for {f['obligation']} did not reproduce")
        return 0
    finally:
        shutil.rmtree(dest, ignore_errors=True)
