"""Which components decide which property. Components: vx (Verus unit), kx (Kani harness group), bx (bounded)."""

COMMON_TRUSTED = [
    "Verus 0.2026.09.13 + bundled Z3",
    "vx extractor (syn byte ranges + rewrite rules R1-R8, every application logged in rewrites_applied)",
]

PROPS = {
    "C02": {
        "level": "proof",
        "components": [
            {"kind": "vx", "unit": "event_queue"},
        ],
        "assumptions": [
            "generic key type K: Eq/Hash obey vstd's key model and Clone returns an equal value (preconditions of the contracts)",
            "VecDeque length < usize::MAX before a push (memory exhaustion precedes)",
            "composition of the agent-side queue and the runtime-side queue through the byte channel is not modelled",
            "Recon-equality of key text (C15) is assumed to be an equivalence refining byte equality",
        ],
        "trusted_base": COMMON_TRUSTED,
    },
}
