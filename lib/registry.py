"""Which components decide which property. Components: vx (Verus unit), kx (Kani harness group), bx (bounded)."""

COMMON_TRUSTED = [
    "Verus 0.2026.09.13 + bundled Z3",
    "vx extractor (syn byte ranges + rewrite rules R1-R8, every application logged in rewrites_applied)",
]

PROPS = {
    "C02": {
        "level": "proof",
        "level_text": "Verus discharges representation-invariant and whole-view postconditions of the real coalescing-queue operations for all queue contents and lengths, including epoch wrap-around",
        "level_note": "trusted: Verus+Z3, extractor rewrite rules, vstd specs of std collections, listed shims; key type obeys the Eq/Hash/Clone model; composition across the byte channel and Recon key equality (C15) assumed",
        "technique": "contract-based deductive verification: Verus on mechanically extracted real functions",
        "components": [
            {"kind": "vx", "unit": "event_queue"},
            {"kind": "vx", "unit": "uplinks", "rlimit": 120},
            {"kind": "vx", "unit": "write_queues"},
            {"kind": "kx", "name": "queues", "package": "swimos_agent", "crate_dir": "server/swimos_agent",
             "attach": "src/lanes/queues/mod.rs", "harness_file": "kx/swimos_agent/queues.rs", "bounded": True, "thorough_only": True,
             "bound": "snapshots of length 0..3 over u8 keys, 2 snapshots; contents symbolic", "timeout": 1500,
             "functions": [{"fn": f, "file": "server/swimos_agent/src/lanes/queues/mod.rs"} for f in ["SyncQueue::remove", "update_sync_queues"]],
             "assumptions": ["bounded stand-in for the two functions assumed (external_body) in unit write_queues"]},
        ],
        "assumptions": [
            "generic key type K: Eq/Hash obey vstd's key model and Clone returns an equal value (preconditions of the contracts)",
            "VecDeque length < usize::MAX before a push (memory exhaustion precedes)",
            "composition of the agent-side queue and the runtime-side queue through the byte channel is not modelled",
            "Recon-equality of key text (C15) is assumed to be an equivalence refining byte equality",
        ],
        "trusted_base": COMMON_TRUSTED,
    },
    "C17": {
        "level": "proof",
        "level_text": "Kani proves per-operation contracts of vote/rescind/drop/poll and the constructor on the real code for every party count 2..8, every flag word and voted state (loops closed by unwinding assertions), so the state invariant and the told-unanimous/told-pending guarantees hold for every operation order",
        "level_note": "sequential atomics: each operation linearises at its single successful RMW; memory orderings and the async callers that act on the results are not checked",
        "technique": "contract-based verification: Kani/CBMC full-domain contract harnesses on the real crate",
        "components": [
            {"kind": "kx", "name": "timeout_coord", "package": "swimos_runtime", "crate_dir": "runtime/swimos_runtime",
             "attach": "src/timeout_coord/mod.rs", "harness_file": "kx/swimos_runtime/timeout_coord.rs",
             "quick_harnesses": [r".*_2", r".*_3", r".*_8"],
             "functions": [{"fn": f, "file": "runtime/swimos_runtime/src/timeout_coord/mod.rs"} for f in
                           ["multi_party_coordinator", "Voter::vote", "Voter::rescind", "<Voter as Drop>::drop", "<Receiver as Future>::poll"]],
             "assumptions": ["Kani executes atomics sequentially: each operation is taken to be atomic at its single successful RMW; memory orderings (Relaxed/Release/Acquire) are not checked",
                             "futures::task::AtomicWaker is executed as real code (not stubbed)"]},
        ],
        "assumptions": [
            "operations of different parties are linearised at their single successful atomic read-modify-write (fetch_or / compare_exchange); weak-memory effects are not modelled",
            "callers stop the runtime when told Unanimous / when the Receiver future completes (async select loops, not under contract)",
        ],
        "trusted_base": ["Kani 0.68 + CBMC 6.11 (loop-free or unwinding-assertion-closed harnesses over full-domain symbolic inputs)"],
    },
    "C12": {
        "level": "proof",
        "level_text": "Verus proves, for every buffer content, capacity and request size, that each Conduit transition keeps the bounded-FIFO invariant, delivers/appends exactly the stated prefixes in order, reports EOF/BrokenPipe after close and leaves no waiter registered after progress; Kani proves that emptying the waker slot calls Waker::wake, that dropping either end closes and wakes, and the coop yield self-wakes",
        "level_note": "every access to the Conduit is under one parking_lot mutex (trusted), so transitions are atomic; shims for BytesMut/ReadBuf/Waker/Context are assumed contracts; Kani wrapper harnesses use capacity<=4 and single-byte payloads (the data-path generality is the Verus unit's)",
        "technique": "contract-based deductive verification: Verus on extracted real functions + Kani contract harnesses on the real crate",
        "components": [
            {"kind": "vx", "unit": "conduit"},
            {"kind": "kx", "name": "channel", "package": "swimos_byte_channel", "crate_dir": "swimos_utilities/swimos_byte_channel",
             "attach": "src/channel/mod.rs", "harness_file": "kx/swimos_byte_channel/channel.rs",
             "harnesses": ["conduit_wake", "conduit_close"],
             "functions": [{"fn": f, "file": "swimos_utilities/swimos_byte_channel/src/channel/mod.rs"} for f in
                           ["Conduit::wake", "Conduit::close_channel", "<ByteWriter as Drop>::drop", "<ByteReader as Drop>::drop",
                            "<ByteReader as AsyncRead>::poll_read", "<ByteWriter as AsyncWrite>::{poll_write,poll_flush,poll_shutdown}", "ByteWriter::is_closed"]],
             "assumptions": ["parking_lot::Mutex executed as real code, single-threaded", "wrapper harnesses: capacity 1..4, one-byte payloads"]},
            {"kind": "kx", "name": "coop", "package": "swimos_byte_channel", "crate_dir": "swimos_utilities/swimos_byte_channel",
             "attach": "src/coop/mod.rs", "harness_file": "kx/swimos_byte_channel/coop.rs",
             "functions": [{"fn": f, "file": "swimos_utilities/swimos_byte_channel/src/coop/mod.rs"} for f in ["consume_budget", "track_progress"]],
             "assumptions": ["thread-local budget cell treated as a plain static by Kani"]},
        ],
        "assumptions": [
            "mutual exclusion of parking_lot::Mutex (every Conduit access is under inner.lock())",
            "ghost histories written/read are connected to the contracts by spec-level lemmas (lemma_fifo_write / lemma_fifo_read), not by instrumenting the code",
            "the executor polls a task again after its waker is woken (tokio, not verified)",
        ],
        "trusted_base": COMMON_TRUSTED + ["Kani 0.68 + CBMC 6.11"],
    },
    "C04": {
        "level": "proof",
        "level_text": "Verus proves, for every scheduler state and every busy/idle pattern of the socket writer, that what Uplinks hands to the writer is exactly what one lane was owed (body, lane label, synced marker), that specials are FIFO and go first, that an unlink purges everything owed to the lane, and that the representation invariant (owed => queued => has a queue entry) is preserved",
        "level_note": "trusted: Verus+Z3, extractor rules, shims (BytesMut, HashMap::get_mut, entry().or_default(), derive(Default), RemoteSender/LaneRegistry stand-ins, MapOperationQueue contract proved separately); async callers (write_task, handle_event) and Links are not covered by this component",
        "technique": "contract-based deductive verification: Verus on mechanically extracted real functions",
        "components": [
            {"kind": "vx", "unit": "uplinks", "rlimit": 120},
        ],
        "assumptions": [
            "callers push Linked when a (remote, lane) pair enters the link relation and Unlinked when it leaves (async write_task / handle_event code, not under contract)",
            "lane ids handed to push are registered in the LaneRegistry (ids are never removed)",
            "supply bodies respect Rust's allocation bound (len <= isize::MAX)",
        ],
        "trusted_base": COMMON_TRUSTED,
    },
    "C01": {
        "level": "proof",
        "level_text": "Verus proves that the per-remote scheduler and the value backpressure strategy only ever hand out, for a value lane, the newest body pushed for that lane (overwrite on push, exact hand-out on pop, nothing owed is lost while queued, nothing is sent that was not owed), for every busy/idle pattern of the writer",
        "level_note": "decides the property at the uplink scheduler and backpressure buffer; the agent-side ValueStore/ValueLane and the async task composition (dirty-item retry, byte channel = C12, link bookkeeping = C04/C20) are assumed",
        "technique": "contract-based deductive verification: Verus on mechanically extracted real functions",
        "components": [
            {"kind": "vx", "unit": "uplinks", "rlimit": 120},
        ],
        "assumptions": [
            "handle_event forwards every lane response to every linked remote (async code, not under contract)",
            "the agent loop retries dirty items until written (async run_agent)",
        ],
        "trusted_base": COMMON_TRUSTED,
    },
    "C03": {
        "level": "proof",
        "level_text": "Verus proves the runtime half of sync: a synced marker pushed behind a busy writer is owed to exactly that lane, is emitted after that lane's pending data (value: the pending body first; map: the whole pending queue is taken along), and leaves every other lane untouched",
        "level_note": "the agent-side snapshot bookkeeping (WriteQueues/SyncQueue) and the 'remote is linked when the covering broadcast is emitted' caller obligation (observation O1 in DESIGN.md) are not decided by this component",
        "technique": "contract-based deductive verification: Verus on mechanically extracted real functions",
        "components": [
            {"kind": "vx", "unit": "uplinks", "rlimit": 120},
            {"kind": "vx", "unit": "write_queues"},
            {"kind": "kx", "name": "queues", "package": "swimos_agent", "crate_dir": "server/swimos_agent",
             "attach": "src/lanes/queues/mod.rs", "harness_file": "kx/swimos_agent/queues.rs", "bounded": True, "thorough_only": True,
             "bound": "snapshots of length 0..3 over u8 keys, 2 snapshots; contents symbolic", "timeout": 1500,
             "functions": [{"fn": f, "file": "server/swimos_agent/src/lanes/queues/mod.rs"} for f in ["SyncQueue::remove", "update_sync_queues"]],
             "assumptions": ["bounded stand-in for the two functions assumed (external_body) in unit write_queues"]},

        ],
        "assumptions": ["a syncing remote is linked when broadcast events covering its snapshot are emitted (cross-task; reading suggests this can fail for sync-without-link, DESIGN.md O1)"],
        "trusted_base": COMMON_TRUSTED,
    },
    "C07": {
        "level": "proof",
        "level_text": "Verus proves the second sentence of the property for the backpressure strategies the downlink runtime uses: a value command is replaced only by a later value (and an empty-bodied value still counts as pending), prepare_write hands out exactly the pending body once; supply-style buffers are exact FIFOs",
        "level_note": "reduced scope: the consumer-session half (linked/synced/event/unlinked per attached consumer) lives in two async select! loops of downlink/mod.rs with no extractable function boundary and is NOT decided; map command coalescing relies on the MapOperationQueue contract",
        "technique": "contract-based deductive verification: Verus on mechanically extracted real functions",
        "components": [
            {"kind": "vx", "unit": "backpressure"},
        ],
        "assumptions": ["consumer sessions of the shared downlink (async select loops) not covered", "Recon key equality (C15) assumed an equivalence"],
        "trusted_base": COMMON_TRUSTED,
    },
    "C14": {
        "level": "proof",
        "level_text": "Verus proves that the supply backpressure buffer is an exact FIFO of length-prefixed items (push appends exactly one item, prepare_write removes exactly the oldest, including empty bodies) and that the uplink scheduler emits exactly one queued supply item per pop, re-queues the lane while items remain and never merges or drops one",
        "level_note": "decides no-drop/no-merge at the runtime buffering points; the agent-side SupplyLane, the command-lane handler invocation and the external-links command buffer are not covered by these components",
        "technique": "contract-based deductive verification: Verus on mechanically extracted real functions",
        "components": [
            {"kind": "vx", "unit": "uplinks", "rlimit": 120},
            {"kind": "bx", "name": "command_output", "package": "swimos_runtime", "crate_dir": "runtime/swimos_runtime",
             "attach": "src/agent/task/external_links/mod.rs", "harness_file": "bx/swimos_runtime/command_output.rs",
             "depth_quick": 5, "depth_thorough": 6,
             "bound": "all operation sequences up to depth 5 (quick) / 6 (thorough) over 2 targets x 2 bodies x overwrite flag + complete write cycle",
             "functions": [{"fn": f, "file": "runtime/swimos_runtime/src/agent/task/external_links/mod.rs"} for f in
                           ["CommandOutput::append", "CommandOutput::get_buffer", "CommandOutput::write", "CommandOutput::replace_writer",
                            "CmdChannelWriter::swap_buffer", "CmdChannelWriter::append_buffer", "CmdChannelWriter::send_commands"]],
             "assumptions": ["BOUNDED stand-in (not a proof): CommandOutput::write is outside Verus (impl Future, drain, or-patterns) and Kani (std HashMap)"]},
        ],
        "assumptions": ["bodies respect Rust's allocation bound", "read_task / LaneSender flushing (async) not covered"],
        "trusted_base": COMMON_TRUSTED,
    },
}
