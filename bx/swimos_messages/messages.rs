// BOUNDED contract check of the routed request/response frame codecs of swimos_messages (runtime/swimos_messages/src/
// protocol/mod.rs) -- property C10. Same contract and method as bx/swimos_agent_protocol/codecs.rs: exact round trip for every
// 2-chunk (and, for short streams, 3-chunk) cut of every stream of one or two messages; prefixes / tag / small byte corruptions
// give Ok/Err, never a panic or a hang (run in child processes, see there).
use super::*;
use bytes::{Bytes, BytesMut};
use std::fmt::Debug;
use std::panic::{catch_unwind, AssertUnwindSafe};
use tokio_util::codec::{Decoder, Encoder};
use uuid::Uuid;

struct Outcome {
    items: Vec<String>,
    reencoded: Option<Vec<u8>>,
    leftover: usize,
}

fn drive<D, F>(mut dec: D, chunks: &[&[u8]], reenc: &F) -> Result<Outcome, String>
where
    D: Decoder,
    D::Item: Debug,
    D::Error: Debug,
    F: Fn(D::Item, &mut BytesMut) -> bool,
{
    let mut buf = BytesMut::new();
    let mut items = vec![];
    let mut re = BytesMut::new();
    let mut can_re = true;
    for c in chunks {
        buf.extend_from_slice(c);
        let mut guard = 0;
        loop {
            guard += 1;
            if guard > 10_000 {
                return Err("decoder does not terminate (more than 10000 decode calls on one chunk)".into());
            }
            match dec.decode(&mut buf) {
                Ok(Some(item)) => {
                    items.push(format!("{:?}", item));
                    can_re &= reenc(item, &mut re);
                }
                Ok(None) => break,
                Err(e) => return Err(format!("decode error {:?}", e)),
            }
        }
    }
    Ok(Outcome { items, reencoded: if can_re { Some(re.to_vec()) } else { None }, leftover: buf.len() })
}

// A frame whose Recon BODY is corrupt (its header and length field are intact) followed by a good frame: whatever the cuts,
// the corrupt frame is reported as ONE error and the good frame is then decoded exactly (the stream is not desynchronised).
fn check_resync<D>(name: &str, corrupt: &[u8], good: &[u8], mk: &dyn Fn() -> D, rep: &mut Report)
where
    D: Decoder,
    D::Item: Debug,
    D::Error: Debug,
{
    if rep.mode != Mode::Fragmentation {
        return;
    }
    let mut stream = corrupt.to_vec();
    stream.extend_from_slice(good);
    let expected: Vec<String> = {
        let mut d = mk();
        let mut b = BytesMut::from(good);
        match d.decode(&mut b) {
            Ok(Some(item)) => vec![format!("{:?}", item)],
            ow => {
                rep.resync.insert(name.to_string(), Err(format!("{name}: the good frame {:?} does not decode: {:?}", good, ow)));
                return;
            }
        }
    };
    let mut evals = 0usize;
    let run = |chunks: &[&[u8]]| -> Result<(usize, Vec<String>, usize), String> {
        let mut dec = mk();
        let mut buf = BytesMut::new();
        let mut errors = 0;
        let mut items = vec![];
        for c in chunks {
            buf.extend_from_slice(c);
            let mut guard = 0;
            loop {
                guard += 1;
                if guard > 10_000 {
                    return Err("decoder does not terminate".into());
                }
                match dec.decode(&mut buf) {
                    Ok(Some(item)) => items.push(format!("{:?}", item)),
                    Ok(None) => break,
                    Err(_) => errors += 1,
                }
            }
        }
        Ok((errors, items, buf.len()))
    };
    for i in 0..=stream.len() {
        for j in i..=stream.len() {
            evals += 1;
            let r = catch_unwind(AssertUnwindSafe(|| run(&[&stream[..i], &stream[i..j], &stream[j..]])));
            let bad = match r {
                Ok(Ok((1, items, 0))) if items == expected => None,
                Ok(Ok((e, items, left))) => Some(format!("{e} errors, decoded {:?}, {left} bytes left; expected one error and then {:?}", items, expected)),
                Ok(Err(e)) => Some(e),
                Err(_) => Some("decoder panicked".to_string()),
            };
            if let Some(b) = bad {
                rep.resync.insert(name.to_string(), Err(format!("{name}: corrupt-body frame {:?} followed by {:?}, cut at {i},{j}: {b}", corrupt, good)));
                return;
            }
        }
    }
    rep.resync.insert(name.to_string(), Ok(evals));
}

#[derive(Clone, Copy, PartialEq)]
enum Mode {
    Fragmentation,
    // robustness variants run in a child process (a corrupt length can make BytesMut::reserve ABORT the process);
    // `skip` = number of variants already done by earlier children, progress is written to the file before each variant
    Robustness { skip: usize },
}
struct Report {
    mode: Mode,
    evaluations: usize,
    variant: usize,
    progress: Option<std::path::PathBuf>,
    frag_fail: std::collections::BTreeMap<String, String>,
    robust_fail: std::collections::BTreeMap<String, String>,
    resync: std::collections::BTreeMap<String, Result<usize, String>>,
    codecs: Vec<String>,
}

fn check_codec<D, F>(name: &str, has_tag: bool, frames: &[Vec<u8>], mk: &dyn Fn() -> D, reenc: &F, rep: &mut Report)
where
    D: Decoder,
    D::Item: Debug,
    D::Error: Debug,
    F: Fn(D::Item, &mut BytesMut) -> bool,
{
    if !rep.codecs.iter().any(|c| c == name) {
        rep.codecs.push(name.to_string());
    }
    // streams of one and two frames
    let mut streams: Vec<(Vec<u8>, usize, Vec<usize>)> = vec![];
    for a in frames {
        streams.push((a.clone(), 1, vec![0]));
        for b in frames {
            let mut s = a.clone();
            s.extend_from_slice(b);
            streams.push((s, 2, vec![0, a.len()]));
        }
    }
    for (stream, n, starts) in &streams {
        if rep.mode != Mode::Fragmentation {
            robustness(name, has_tag, stream, starts, mk, reenc, rep);
            continue;
        }
        rep.evaluations += 1;
        let whole = match drive(mk(), &[stream.as_slice()], reenc) {
            Ok(o) => o,
            Err(e) => {
                rep.frag_fail.entry(name.to_string()).or_insert(format!("{name}: unsplit stream {:?} failed: {e}", stream));
                continue;
            }
        };
        if whole.items.len() != *n || whole.leftover != 0 {
            rep.frag_fail.entry(name.to_string()).or_insert(format!("{name}: stream {:?} of {n} messages decoded to {:?} with {} bytes left over", stream, whole.items, whole.leftover));
            continue;
        }
        if let Some(re) = &whole.reencoded {
            if re != stream {
                rep.frag_fail.entry(name.to_string()).or_insert(format!("{name}: decoding {:?} and re-encoding gives {:?} (decoded {:?})", stream, re, whole.items));
            }
        }
        // every 2-chunk split, and every 3-chunk split of short streams
        for i in 0..=stream.len() {
            rep.evaluations += 1;
            let r = catch_unwind(AssertUnwindSafe(|| drive(mk(), &[&stream[..i], &stream[i..]], reenc)));
            match r {
                Ok(Ok(o)) if o.items == whole.items && o.leftover == 0 => {}
                Ok(Ok(o)) => {
                    rep.frag_fail.entry(name.to_string()).or_insert(format!("{name}: stream {:?} cut at {i} decoded to {:?} (+{} bytes left), unsplit gives {:?}", stream, o.items, o.leftover, whole.items));
                }
                Ok(Err(e)) => {
                    rep.frag_fail.entry(name.to_string()).or_insert(format!("{name}: stream {:?} cut at {i}: {e}; unsplit gives {:?}", stream, whole.items));
                }
                Err(e) => {
                    let msg = e.downcast_ref::<String>().cloned().or_else(|| e.downcast_ref::<&str>().map(|s| s.to_string())).unwrap_or_default();
                    rep.frag_fail.entry(name.to_string()).or_insert(format!("{name}: stream {:?} cut at {i}: decoder panicked: {msg}", stream));
                }
            }
            if stream.len() <= 48 {
                for j in i..=stream.len() {
                    rep.evaluations += 1;
                    let r = catch_unwind(AssertUnwindSafe(|| drive(mk(), &[&stream[..i], &stream[i..j], &stream[j..]], reenc)));
                    match r {
                        Ok(Ok(o)) if o.items == whole.items && o.leftover == 0 => {}
                        Ok(Ok(o)) => {
                            rep.frag_fail.entry(name.to_string()).or_insert(format!("{name}: stream {:?} cut at {i},{j} decoded to {:?} (+{} left), unsplit gives {:?}", stream, o.items, o.leftover, whole.items));
                        }
                        Ok(Err(e)) => {
                            rep.frag_fail.entry(name.to_string()).or_insert(format!("{name}: stream {:?} cut at {i},{j}: {e}", stream));
                        }
                        Err(_) => {
                            rep.frag_fail.entry(name.to_string()).or_insert(format!("{name}: stream {:?} cut at {i},{j}: decoder panicked", stream));
                        }
                    }
                }
            }
        }
    }
}

fn robustness<D, F>(name: &str, has_tag: bool, stream: &Vec<u8>, starts: &Vec<usize>, mk: &dyn Fn() -> D, reenc: &F, rep: &mut Report)
where
    D: Decoder,
    D::Item: Debug,
    D::Error: Debug,
    F: Fn(D::Item, &mut BytesMut) -> bool,
{
    let skip = match rep.mode {
        Mode::Robustness { skip } => skip,
        _ => return,
    };
    {
        // prefixes, tag bytes, small changes of non-zero bytes; whole and cut in the middle
        let mut variants: Vec<Vec<u8>> = vec![];
        for i in 0..stream.len() {
            variants.push(stream[..i].to_vec());
        }
        if has_tag {
            for s in starts {
                for t in 0..=255u8 {
                    let mut v = stream.clone();
                    if *s < v.len() {
                        v[*s] = t;
                        variants.push(v);
                    }
                }
            }
        }
        for p in 0..stream.len() {
            if stream[p] != 0 {
                for nb in [stream[p] ^ 1, stream[p].wrapping_add(1), stream[p].wrapping_sub(1), stream[p].wrapping_add(7), 0] {
                    let mut v = stream.clone();
                    v[p] = nb;
                    variants.push(v);
                }
            }
        }
        for v in variants {
            rep.variant += 1;
            if rep.variant <= skip {
                continue;
            }
            if let Some(p) = &rep.progress {
                let _ = std::fs::write(p, format!("{}\n{name}: corrupt stream {:?} (from {:?})", rep.variant, v, stream));
            }
            rep.evaluations += 1;
            let mid = v.len() / 2;
            for chunks in [vec![&v[..]], vec![&v[..mid], &v[mid..]]] {
                let r = catch_unwind(AssertUnwindSafe(|| drive(mk(), &chunks, reenc)));
                match r {
                    Ok(Ok(_)) => {}
                    Ok(Err(e)) if e.starts_with("decoder does not terminate") => {
                        rep.robust_fail.entry(name.to_string()).or_insert(format!("{name}: corrupt stream {:?}: {e}", v));
                    }
                    Ok(Err(_)) => {}
                    Err(_) => {
                        rep.robust_fail.entry(name.to_string()).or_insert(format!("{name}: corrupt stream {:?} (from {:?}) makes the decoder panic", v, stream));
                    }
                }
            }
        }
    }
}

fn enc<E, T>(mut e: E, item: T) -> Vec<u8>
where
    E: Encoder<T>,
    E::Error: Debug,
{
    let mut b = BytesMut::new();
    e.encode(item, &mut b).expect("encode failed");
    b.to_vec()
}

fn no_reenc<T>(_: T, _: &mut BytesMut) -> bool {
    false
}

const B: [&[u8]; 3] = [b"", b"x", b"@a{1}"];

fn run_all(rep: &mut Report) {
    // (the high-order bytes of the id are zero so that a corrupt tag cannot turn them into a huge length)
    let id = Uuid::from_u128(0x0a0b);
    let paths = [RelativeAddress::new("/n", "l"), RelativeAddress::new("", ""), RelativeAddress::new("/node/%41", "lane")];

    // ---- requests: link / sync / unlink / command(body)
    let mut frames: Vec<Vec<u8>> = vec![];
    for p in &paths {
        frames.push(enc(RawRequestMessageEncoder, RequestMessage::<&str, &[u8]> { origin: id, path: p.clone(), envelope: Operation::Link }));
        frames.push(enc(RawRequestMessageEncoder, RequestMessage::<&str, &[u8]> { origin: id, path: p.clone(), envelope: Operation::Sync }));
        frames.push(enc(RawRequestMessageEncoder, RequestMessage::<&str, &[u8]> { origin: id, path: p.clone(), envelope: Operation::Unlink }));
        for b in B {
            frames.push(enc(RawRequestMessageEncoder, RequestMessage::<&str, &[u8]> { origin: id, path: p.clone(), envelope: Operation::Command(b) }));
        }
    }
    check_codec("RawRequestMessage", true, &frames, &RawRequestMessageDecoder::default,
        &|item: RequestMessage<BytesStr, Bytes>, out: &mut BytesMut| RawRequestMessageEncoder.encode(item, out).is_ok(), rep);

    // ---- responses: linked / synced / unlinked(optional body) / event(body)
    let mut frames: Vec<Vec<u8>> = vec![];
    for p in &paths {
        frames.push(enc(RawResponseMessageEncoder, ResponseMessage::<&str, &[u8], &[u8]> { origin: id, path: p.clone(), envelope: Notification::Linked }));
        frames.push(enc(RawResponseMessageEncoder, ResponseMessage::<&str, &[u8], &[u8]> { origin: id, path: p.clone(), envelope: Notification::Synced }));
        frames.push(enc(RawResponseMessageEncoder, ResponseMessage::<&str, &[u8], &[u8]> { origin: id, path: p.clone(), envelope: Notification::Unlinked(None) }));
        for b in B {
            frames.push(enc(RawResponseMessageEncoder, ResponseMessage::<&str, &[u8], &[u8]> { origin: id, path: p.clone(), envelope: Notification::Event(b) }));
            if !b.is_empty() {
                frames.push(enc(RawResponseMessageEncoder, ResponseMessage::<&str, &[u8], &[u8]> { origin: id, path: p.clone(), envelope: Notification::Unlinked(Some(b)) }));
            }
        }
    }
    check_codec("RawResponseMessage", true, &frames, &RawResponseMessageDecoder::default,
        &|item: ResponseMessage<BytesStr, Bytes, Bytes>, out: &mut BytesMut| RawResponseMessageEncoder.encode(item, out).is_ok(), rep);

    // ---- the typed response encoder (Recon-printed bodies), decoded by the raw decoder; and for every encoder: encoding a frame
    // into a buffer that already holds another frame appends exactly that frame and leaves the earlier bytes alone
    let typed: Vec<ResponseMessage<&str, i32, &[u8]>> = {
        let mut v = vec![];
        for p in &paths[..2] {
            v.push(ResponseMessage { origin: id, path: p.clone(), envelope: Notification::Linked });
            v.push(ResponseMessage { origin: id, path: p.clone(), envelope: Notification::Synced });
            v.push(ResponseMessage { origin: id, path: p.clone(), envelope: Notification::Unlinked(None) });
            v.push(ResponseMessage { origin: id, path: p.clone(), envelope: Notification::Unlinked(Some(&b"x"[..])) });
            for n in [0i32, -77, 123456] {
                v.push(ResponseMessage { origin: id, path: p.clone(), envelope: Notification::Event(n) });
            }
        }
        v
    };
    let frames: Vec<Vec<u8>> = typed.iter().map(|m| enc(ResponseMessageEncoder, m.clone())).collect();
    if rep.mode == Mode::Fragmentation {
        let name = "ResponseMessage(typed i32 bodies)";
        for (a, ea) in typed.iter().zip(frames.iter()) {
            for (b, eb) in typed.iter().zip(frames.iter()) {
                rep.evaluations += 1;
                let mut buf = BytesMut::new();
                let ok = ResponseMessageEncoder.encode(a.clone(), &mut buf).is_ok() && ResponseMessageEncoder.encode(b.clone(), &mut buf).is_ok();
                let mut expected = ea.clone();
                expected.extend_from_slice(eb);
                if !ok || buf.as_ref() != expected.as_slice() {
                    rep.frag_fail.entry(name.to_string()).or_insert(format!("{name}: encoding {:?} and then {:?} into ONE buffer gives {:?}; each encoded on its own gives {:?}", a, b, buf.as_ref(), expected));
                }
            }
        }
    }
    check_codec("ResponseMessage(typed i32 bodies)", true, &frames, &RawResponseMessageDecoder::default, &no_reenc::<ResponseMessage<BytesStr, Bytes, Bytes>>, rep);
}

// child: runs the robustness variants from VERIF_BX_SKIP on, writing its progress before every variant
#[test]
fn codec_robustness_child() {
    let progress = match std::env::var("VERIF_BX_PROGRESS") {
        Ok(p) => std::path::PathBuf::from(p),
        Err(_) => return,
    };
    let skip: usize = std::env::var("VERIF_BX_SKIP").ok().and_then(|s| s.parse().ok()).unwrap_or(0);
    std::panic::set_hook(Box::new(|_| {}));
    let mut rep = Report { mode: Mode::Robustness { skip }, evaluations: 0, variant: 0, progress: Some(progress.clone()), frag_fail: Default::default(), robust_fail: Default::default(), resync: Default::default(), codecs: vec![] };
    run_all(&mut rep);
    let fails: Vec<String> = rep.robust_fail.iter().map(|(k, v)| format!("{k}\t{v}")).collect();
    let _ = std::fs::write(&progress, format!("done {} {}\n{}", rep.variant, rep.evaluations, fails.join("\n")));
}

#[test]
fn codec_contract() {
    if std::env::var("VERIF_BX_PROGRESS").is_ok() {
        return;
    }
    let prev = std::panic::take_hook();
    std::panic::set_hook(Box::new(|_| {}));
    let mut rep = Report { mode: Mode::Fragmentation, evaluations: 0, variant: 0, progress: None, frag_fail: Default::default(), robust_fail: Default::default(), resync: Default::default(), codecs: vec![] };
    run_all(&mut rep);
    // robustness in child processes
    let progress = std::env::temp_dir().join(format!("verif_bx_messages_progress_{}", std::process::id()));
    let mut skip = 0usize;
    let mut aborts: Vec<String> = vec![];
    let mut robust_evals = 0usize;
    // (each abort costs a child process; after 60 of them the remaining corrupt variants are not run -- BOUNDED)
    for _round in 0..60 {
        let _ = std::fs::remove_file(&progress);
        let st = std::process::Command::new(std::env::current_exe().unwrap())
            .args(["codec_robustness_child", "--nocapture", "--test-threads", "1"])
            .env("VERIF_BX_PROGRESS", &progress)
            .env("VERIF_BX_SKIP", skip.to_string())
            .stdout(std::process::Stdio::null())
            .stderr(std::process::Stdio::null())
            .status();
        let txt = std::fs::read_to_string(&progress).unwrap_or_default();
        if let Some(rest) = txt.strip_prefix("done ") {
            let mut it = rest.lines();
            let head: Vec<&str> = it.next().unwrap_or("").split(' ').collect();
            robust_evals += head.get(1).and_then(|s| s.parse::<usize>().ok()).unwrap_or(0);
            for l in it {
                if let Some((k, v)) = l.split_once('\t') {
                    rep.robust_fail.entry(k.to_string()).or_insert(v.to_string());
                }
            }
            break;
        }
        // the child died (abort): the progress file names the variant that killed it
        let mut it = txt.lines();
        let n: usize = it.next().and_then(|s| s.parse().ok()).unwrap_or(skip + 1);
        aborts.push(format!("{} [child status {:?}]", it.next().unwrap_or("?"), st.map(|s| s.code())));
        robust_evals += n.saturating_sub(skip);
        skip = n;
    }
    let _ = std::fs::remove_file(&progress);
    rep.evaluations += robust_evals;
    std::panic::set_hook(prev);
    println!("BX-SAMPLE 14 codec pairs of swimos_agent_protocol; streams of 1 and 2 messages, every 2-chunk cut, every 3-chunk cut of streams <= 48 bytes, prefixes/tag/small byte corruptions");
    let mut failed = false;
    let slug = |c: &str| c.replace(|ch: char| !ch.is_ascii_alphanumeric(), "_");
    for c in &rep.codecs {
        match rep.frag_fail.get(c) {
            None => println!("BX-OBL codecs::{}::fragmentation_independent_exact_round_trip ok evaluations={} distinct={}", slug(c), rep.evaluations / rep.codecs.len(), rep.evaluations / rep.codecs.len()),
            Some(w) => {
                println!("BX-FAIL codecs::{}::fragmentation_independent_exact_round_trip witness={w}", slug(c));
                failed = true;
            }
        }
        match rep.robust_fail.get(c) {
            None => println!("BX-OBL codecs::{}::corrupt_input_gives_error_not_panic_or_hang ok evaluations={} distinct={}", slug(c), robust_evals / rep.codecs.len(), robust_evals / rep.codecs.len()),
            Some(w) => {
                println!("BX-FAIL codecs::{}::corrupt_input_gives_error_not_panic_or_hang witness={w}", slug(c));
                failed = true;
            }
        }
    }
    for (c, r) in &rep.resync {
        match r {
            Ok(n) => println!("BX-OBL codecs::{}::corrupt_body_does_not_desynchronise_the_stream ok evaluations={n} distinct={n}", slug(c)),
            Err(w) => {
                println!("BX-FAIL codecs::{}::corrupt_body_does_not_desynchronise_the_stream witness={w}", slug(c));
                failed = true;
            }
        }
    }
    match aborts.first() {
        None => println!("BX-OBL codecs::corrupt_input_does_not_abort_the_process ok evaluations={} distinct={}", robust_evals, robust_evals),
        Some(w) => {
            println!("BX-FAIL codecs::corrupt_input_does_not_abort_the_process witness={} corrupt streams abort the process, first: {w}", aborts.len());
            failed = true;
        }
    }
    assert!(!failed, "contract violated");
}
