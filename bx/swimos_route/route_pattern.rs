// BOUNDED contract check of RoutePattern (swimos_utilities/swimos_route/src/route_pattern/mod.rs) -- property C18.
// parse/apply/unapply/are_ambiguous work on String, HashMap<String,String> and percent_encoding iterators: outside Verus
// (no str byte reasoning, iterator adaptors) and Kani (HashMap, unbounded strings). Checked natively over ALL patterns of
// length <= VERIF_BX_DEPTH over the alphabet {a, A, b, /, :, %, 4, 1} and parameter values {"a", "A", "b", "%", "a b", "/", "a:b", ":"}.
// Contract (from the property):
//   inverse:     unapply(p, apply(p, m)) == m  for every assignment m of non-empty values to p's parameters;
//   determinism: matching depends on the URI alone; a parameter never binds an empty segment;
//   ambiguity:   if some URI is matched by two patterns then are_ambiguous reports them.
use super::*;
use std::collections::HashMap;

const ALPHABET: [char; 8] = ['a', 'A', 'b', '/', ':', '%', '4', '1'];
const VALUES: [&str; 8] = ["a", "A", "b", "%", "a b", "/", "a:b", ":"];


// Patterns with multi-byte characters (the enumeration above is ASCII only): segment boundaries are BYTE offsets, so a character
// that is longer than one byte in front of a parameter must not shift them. Same laws, a fixed list, panics are failures.
fn non_ascii_check() -> Result<usize, String> {
    let patterns = ["/café/:id", "/é/:é", ":né/x", "/日本/:名前/x", "/:a/é/:b"];
    let values = ["a", "é", "日本", "a b"];
    let mut evaluations = 0usize;
    for ps in patterns {
        let r = std::panic::catch_unwind(|| -> Result<usize, String> {
            let mut n = 0usize;
            let p = RoutePattern::parse_str(ps).map_err(|e| format!("pattern {:?} does not parse: {}", ps, e))?;
            let names: Vec<String> = p.parameters().map(|s| s.to_string()).collect();
            for name in &names {
                if name.contains(':') || name.contains('/') {
                    return Err(format!("pattern {:?} has a parameter named {:?}", ps, name));
                }
            }
            for v1 in values {
                for v2 in values {
                    n += 1;
                    let mut m = HashMap::new();
                    for (k, name) in names.iter().enumerate() {
                        m.insert(name.clone(), if k % 2 == 0 { v1.to_string() } else { v2.to_string() });
                    }
                    let uri = p.apply(&m).map_err(|e| format!("pattern {:?} could not be applied to {:?}: {}", ps, m, e))?;
                    let back = p.unapply_str(&uri).map_err(|e| format!("pattern {:?}: its own instantiation {:?} does not match: {}", ps, uri, e))?;
                    if back != m {
                        return Err(format!("pattern {:?} filled with {:?} gives {:?}, which matches back as {:?}", ps, m, uri, back));
                    }
                }
            }
            if !RoutePattern::are_ambiguous(&p, &p) {
                return Err(format!("pattern {:?} is not reported ambiguous with itself", ps));
            }
            Ok(n)
        });
        match r {
            Ok(Ok(n)) => evaluations += n,
            Ok(Err(e)) => return Err(e),
            Err(_) => return Err(format!("pattern {:?}: parse / apply / unapply / are_ambiguous panicked", ps)),
        }
    }
    Ok(evaluations)
}

fn all_patterns(max: usize) -> Vec<RoutePattern> {
    let mut out = vec![];
    let mut idx = vec![0usize; max];
    for len in 1..=max {
        idx.iter_mut().for_each(|i| *i = 0);
        loop {
            let s: String = idx[..len].iter().map(|i| ALPHABET[*i]).collect();
            if let Ok(p) = RoutePattern::parse_str(&s) {
                out.push(p);
            }
            let mut k = 0;
            loop {
                if k == len {
                    break;
                }
                idx[k] += 1;
                if idx[k] < ALPHABET.len() {
                    break;
                }
                idx[k] = 0;
                k += 1;
            }
            if k == len {
                break;
            }
        }
    }
    out
}

// a literal segment whose text is not valid percent-encoded URI text (a '%' not followed by two hex digits): such a
// pattern can never be turned into a parseable URI; likewise a pattern with a scheme but no segments ("a:"). Both are
// accepted by `parse` (known findings, checked as a separate obligation so that they do not mask anything else)
fn has_invalid_escape(p: &RoutePattern) -> bool {
    let s = p.to_string();
    let b = s.as_bytes();
    let mut i = 0;
    while i < b.len() {
        if b[i] == b'%' {
            if i + 3 > b.len() {
                return true;
            }
            if !(b[i + 1] as char).is_ascii_hexdigit() || !(b[i + 2] as char).is_ascii_hexdigit() {
                return true;
            }
            i += 3;
        } else {
            i += 1;
        }
    }
    false
}

fn assignments(p: &RoutePattern) -> Vec<HashMap<String, String>> {
    let names: Vec<String> = p.parameters().map(|s| s.to_string()).collect();
    let mut out = vec![HashMap::new()];
    for n in names {
        let mut next = vec![];
        for m in &out {
            for v in VALUES {
                let mut m2 = m.clone();
                m2.insert(n.clone(), v.to_string());
                next.push(m2);
            }
        }
        out = next;
    }
    out
}

#[test]
fn route_pattern_contract() {
    let depth: usize = std::env::var("VERIF_BX_DEPTH").ok().and_then(|s| s.parse().ok()).unwrap_or(4);
    let patterns = all_patterns(depth);
    let mut evaluations = 0usize;
    let mut inverse_fail: Option<String> = None;
    let mut inverse_fail_invalid: Option<String> = None;
    let mut empty_fail: Option<String> = None;
    let mut amb_fail: Option<String> = None;
    // URIs produced from every pattern (these are the URIs "some pattern matches")
    let mut uris: Vec<(usize, String)> = vec![];
    for (i, p) in patterns.iter().enumerate() {
        let invalid = has_invalid_escape(p) || p.segments.is_empty();
        for m in assignments(p) {
            evaluations += 1;
            let inverse_fail = if invalid { &mut inverse_fail_invalid } else { &mut inverse_fail };
            match p.apply(&m) {
                Ok(uri) => {
                    match p.unapply_str(&uri) {
                        Ok(back) => {
                            if back != m && inverse_fail.is_none() {
                                *inverse_fail = Some(format!("pattern {:?} params {:?} => uri {:?} => unapply {:?}", p.to_string(), m, uri, back));
                            }
                            if back.values().any(|v| v.is_empty()) && empty_fail.is_none() {
                                empty_fail = Some(format!("pattern {:?} uri {:?} binds an empty segment: {:?}", p.to_string(), uri, back));
                            }
                            if uris.len() < 200_000 {
                                uris.push((i, uri));
                            }
                        }
                        Err(_) => {
                            if inverse_fail.is_none() {
                                *inverse_fail = Some(format!("pattern {:?} params {:?} => uri {:?} is not matched by its own pattern", p.to_string(), m, uri));
                            }
                        }
                    }
                }
                Err(e) => {
                    if inverse_fail.is_none() {
                        *inverse_fail = Some(format!("pattern {:?} could not be applied to a full assignment {:?}: {}", p.to_string(), m, e));
                    }
                }
            }
        }
    }
    // ambiguity: a URI matched by two patterns must be reported
    for (i, uri) in &uris {
        for (j, q) in patterns.iter().enumerate() {
            if j == *i {
                continue;
            }
            evaluations += 1;
            if let Ok(b1) = q.unapply_str(uri) {
                // determinism: matching twice gives the same bindings
                if let Ok(b2) = q.unapply_str(uri) {
                    if b1 != b2 && empty_fail.is_none() {
                        empty_fail = Some(format!("pattern {:?} binds {:?} differently on two attempts", q.to_string(), uri));
                    }
                }
                if b1.values().any(|v| v.is_empty()) && empty_fail.is_none() {
                    empty_fail = Some(format!("pattern {:?} uri {:?} binds an empty segment: {:?}", q.to_string(), uri, b1));
                }
                let p = &patterns[*i];
                if !RoutePattern::are_ambiguous(p, q) && amb_fail.is_none() {
                    amb_fail = Some(format!("uri {:?} is matched by {:?} and by {:?} but are_ambiguous says false", uri, p.to_string(), q.to_string()));
                }
            }
        }
    }
    println!("BX-SAMPLE depth={depth}: {} valid patterns over the alphabet {:?}, {} generated URIs", patterns.len(), ALPHABET, uris.len());
    let mut failed = false;
    std::panic::set_hook(Box::new(|_| {}));
    match non_ascii_check() {
        Ok(n) => println!("BX-OBL route_pattern::multi_byte_characters_do_not_shift_segment_boundaries ok evaluations={n} distinct={n}"),
        Err(w) => {
            println!("BX-FAIL route_pattern::multi_byte_characters_do_not_shift_segment_boundaries witness={w}");
            failed = true;
        }
    }
    match inverse_fail {
        None => println!("BX-OBL route_pattern::unapply_inverts_apply ok evaluations={evaluations} distinct={}", patterns.len()),
        Some(w) => {
            println!("BX-FAIL route_pattern::unapply_inverts_apply witness={w}");
            failed = true;
        }
    }
    match inverse_fail_invalid {
        None => println!("BX-OBL route_pattern::unapply_inverts_apply_for_degenerate_patterns ok evaluations={evaluations} distinct={}", patterns.len()),
        Some(w) => {
            println!("BX-FAIL route_pattern::unapply_inverts_apply_for_degenerate_patterns witness={w}");
            failed = true;
        }
    }
    match empty_fail {
        None => println!("BX-OBL route_pattern::matching_is_deterministic_and_never_binds_empty ok evaluations={evaluations} distinct={}", uris.len()),
        Some(w) => {
            println!("BX-FAIL route_pattern::matching_is_deterministic_and_never_binds_empty witness={w}");
            failed = true;
        }
    }
    match amb_fail {
        None => println!("BX-OBL route_pattern::common_uri_implies_ambiguity_reported ok evaluations={evaluations} distinct={}", uris.len()),
        Some(w) => {
            println!("BX-FAIL route_pattern::common_uri_implies_ambiguity_reported witness={w}");
            failed = true;
        }
    }
    assert!(!failed, "contract violated");
}
