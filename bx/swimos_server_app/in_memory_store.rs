// BOUNDED contract check of the in-memory store (server/swimos_server_app/src/in_memory_store/mod.rs) -- property C13.
// The store matches on hash_map::Entry over HashMap<u64, BTreeMap<..>> behind a parking_lot mutex and hands its state
// back to the plane in Drop: outside the installed Verus (Entry API, String-keyed HashMap with borrowed &str lookups) and
// Kani (std HashMap). Checked natively on EVERY operation sequence up to VERIF_BX_DEPTH over two agents {/x, /y},
// item names {a, b}, map keys {"", "k"}, values {"", "v", "ww"}, including dropping a node store and re-opening it and
// requests for the store of a running agent that are abandoned, and restarts that overlap the teardown of the old instance.
// Contract (abstract model): a mapping (agent URI, item name) -> Value(bytes) | Map(key -> bytes) | nothing;
//   every read returns exactly what the preceding writes to that item imply; items/agents never affect each other;
//   the id assigned to a name never changes and never collides; using a value item as a map (or vice versa) is rejected
//   with InvalidOperation and changes nothing; state survives drop + re-open.
use super::*;
use std::collections::BTreeMap as BM;

#[derive(Clone, Debug, PartialEq)]
enum Item {
    Value(Vec<u8>),
    Map(BM<Vec<u8>, Vec<u8>>),
}
type Model = BM<(usize, usize), Item>;

#[derive(Clone, Copy, Debug)]
enum Op {
    Put(usize, usize, usize),
    Get(usize, usize),
    Delete(usize, usize),
    Update(usize, usize, usize, usize),
    Remove(usize, usize, usize),
    Clear(usize, usize),
    Read(usize, usize),
    Reopen(usize),
    // a second request for the store of a running agent that is given up (the future is dropped un-polled / after one poll)
    Abandon(usize, bool),
    // the agent is started again BEFORE the stopping instance has given its store back: the new instance waits; optionally one
    // more request for the same node is made and given up meanwhile (the server does that for every envelope naming the node);
    // then the old instance goes away. The new instance either fails to start or holds the state.
    Overlap(usize, bool),
}
const URIS: [&str; 2] = ["/x", "/y"];
const NAMES: [&str; 2] = ["a", "b"];
const KEYS: [&[u8]; 2] = [b"", b"k"];
const VALS: [&[u8]; 3] = [b"", b"v", b"ww"];

fn ops() -> Vec<Op> {
    let mut v = vec![];
    for a in 0..2 {
        v.push(Op::Reopen(a));
        v.push(Op::Abandon(a, false));
        v.push(Op::Abandon(a, true));
        v.push(Op::Overlap(a, false));
        v.push(Op::Overlap(a, true));
        for n in 0..2 {
            v.push(Op::Get(a, n));
            v.push(Op::Delete(a, n));
            v.push(Op::Clear(a, n));
            v.push(Op::Read(a, n));
            for x in 0..3 {
                v.push(Op::Put(a, n, x));
            }
            for k in 0..2 {
                v.push(Op::Remove(a, n, k));
                for x in 1..3 {
                    v.push(Op::Update(a, n, k, x));
                }
            }
        }
    }
    v
}

fn open(plane: &InMemoryPlanePersistence, a: usize) -> InMemoryNodePersistence {
    futures::executor::block_on(plane.node_store(URIS[a])).expect("node store")
}

fn run_sequence(seq: &[Op]) -> Result<(), String> {
    let plane = InMemoryPlanePersistence::default();
    let mut nodes: Vec<Option<InMemoryNodePersistence>> = vec![Some(open(&plane, 0)), Some(open(&plane, 1))];
    let mut model = Model::new();
    let mut ids: BM<(usize, usize), u64> = BM::new();
    // epilogue: every agent is stopped and started again and every item is read back
    let mut all: Vec<Op> = seq.to_vec();
    for a in 0..2 {
        all.push(Op::Reopen(a));
        for n in 0..2 {
            all.push(Op::Get(a, n));
            all.push(Op::Read(a, n));
        }
    }
    for (step, op) in all.iter().enumerate() {
        let (a, n) = match *op {
            Op::Put(a, n, _) | Op::Get(a, n) | Op::Delete(a, n) | Op::Update(a, n, _, _) | Op::Remove(a, n, _) | Op::Clear(a, n) | Op::Read(a, n) => (a, n),
            Op::Reopen(a) => {
                // the agent stops (store handed back to the plane) and is started again
                nodes[a] = None;
                nodes[a] = Some(open(&plane, a));
                continue;
            }
            Op::Abandon(a, polled) => {
                let mut fut = plane.node_store(URIS[a]);
                if polled {
                    let waker = futures::task::noop_waker();
                    let mut cx = std::task::Context::from_waker(&waker);
                    if fut.as_mut().poll(&mut cx).is_ready() {
                        return Err(format!("step {step}: a second store for the running agent {} was handed out", URIS[a]));
                    }
                }
                drop(fut);
                continue;
            }
            Op::Overlap(a, extra) => {
                let waker = futures::task::noop_waker();
                let mut cx = std::task::Context::from_waker(&waker);
                let mut waiting = plane.node_store(URIS[a]);
                if waiting.as_mut().poll(&mut cx).is_ready() {
                    return Err(format!("step {step}: a second store for the running agent {} was handed out", URIS[a]));
                }
                if extra {
                    let mut other = plane.node_store(URIS[a]);
                    let _ = other.as_mut().poll(&mut cx);
                    drop(other);
                }
                nodes[a] = None; // the stopping instance goes away
                match futures::executor::block_on(waiting) {
                    Ok(node) => nodes[a] = Some(node), // it must hold the state: checked by the reads that follow (and the epilogue)
                    Err(_) => nodes[a] = Some(open(&plane, a)), // the start failed; a later start must find the state
                }
                continue;
            }
        };
        let node = nodes[a].as_mut().unwrap();
        let id = node.id_for(NAMES[n]).map_err(|e| format!("step {step}: id_for failed: {e}"))?;
        match ids.get(&(a, n)) {
            Some(prev) if *prev != id => return Err(format!("step {step}: id of {}{} changed from {prev} to {id}", URIS[a], NAMES[n])),
            _ => {}
        }
        ids.insert((a, n), id);
        if let Some(other) = ids.get(&(a, 1 - n)) {
            if *other == id {
                return Err(format!("step {step}: names a and b of agent {} share id {id}", URIS[a]));
            }
        }
        let cur = model.get(&(a, n)).cloned();
        match *op {
            Op::Put(_, _, x) => {
                let r = node.put_value(id, VALS[x]);
                match cur {
                    Some(Item::Map(_)) => {
                        if !matches!(r, Err(StoreError::InvalidOperation)) {
                            return Err(format!("step {step}: put_value on a map item returned {:?}", r));
                        }
                    }
                    _ => {
                        r.map_err(|e| format!("step {step}: put_value failed: {e}"))?;
                        model.insert((a, n), Item::Value(VALS[x].to_vec()));
                    }
                }
            }
            Op::Get(..) => {
                let mut buf = BytesMut::new();
                let r = node.get_value(id, &mut buf);
                match cur {
                    Some(Item::Value(v)) => {
                        if !matches!(r, Ok(Some(l)) if l == v.len()) || buf.as_ref() != v.as_slice() {
                            return Err(format!("step {step}: get_value returned {:?} / {:?}, last value written is {:?}", r, buf.as_ref(), v));
                        }
                    }
                    Some(Item::Map(_)) => {
                        if !matches!(r, Err(StoreError::InvalidOperation)) {
                            return Err(format!("step {step}: get_value on a map item returned {:?}", r));
                        }
                    }
                    None => {
                        if !matches!(r, Ok(None)) || !buf.is_empty() {
                            return Err(format!("step {step}: get_value on an unwritten item returned {:?}", r));
                        }
                    }
                }
            }
            Op::Delete(..) => {
                let r = node.delete_value(id);
                match cur {
                    Some(Item::Map(_)) => {
                        if !matches!(r, Err(StoreError::InvalidOperation)) {
                            return Err(format!("step {step}: delete_value on a map item returned {:?}", r));
                        }
                    }
                    _ => {
                        r.map_err(|e| format!("step {step}: delete_value failed: {e}"))?;
                        model.remove(&(a, n));
                    }
                }
            }
            Op::Update(_, _, k, x) => {
                let r = node.update_map(id, KEYS[k], VALS[x]);
                match cur {
                    Some(Item::Value(_)) => {
                        if !matches!(r, Err(StoreError::InvalidOperation)) {
                            return Err(format!("step {step}: update_map on a value item returned {:?}", r));
                        }
                    }
                    Some(Item::Map(mut m)) => {
                        r.map_err(|e| format!("step {step}: update_map failed: {e}"))?;
                        m.insert(KEYS[k].to_vec(), VALS[x].to_vec());
                        model.insert((a, n), Item::Map(m));
                    }
                    None => {
                        r.map_err(|e| format!("step {step}: update_map failed: {e}"))?;
                        let mut m = BM::new();
                        m.insert(KEYS[k].to_vec(), VALS[x].to_vec());
                        model.insert((a, n), Item::Map(m));
                    }
                }
            }
            Op::Remove(_, _, k) => {
                let r = node.remove_map(id, KEYS[k]);
                match cur {
                    Some(Item::Value(_)) => {
                        if !matches!(r, Err(StoreError::InvalidOperation)) {
                            return Err(format!("step {step}: remove_map on a value item returned {:?}", r));
                        }
                    }
                    Some(Item::Map(mut m)) => {
                        r.map_err(|e| format!("step {step}: remove_map failed: {e}"))?;
                        m.remove(KEYS[k]);
                        model.insert((a, n), Item::Map(m));
                    }
                    None => {
                        r.map_err(|e| format!("step {step}: remove_map failed: {e}"))?;
                    }
                }
            }
            Op::Clear(..) => {
                let r = node.clear_map(id);
                match cur {
                    Some(Item::Value(_)) => {
                        if !matches!(r, Err(StoreError::InvalidOperation)) {
                            return Err(format!("step {step}: clear_map on a value item returned {:?}", r));
                        }
                    }
                    _ => {
                        r.map_err(|e| format!("step {step}: clear_map failed: {e}"))?;
                        model.remove(&(a, n));
                    }
                }
            }
            Op::Read(..) => match cur {
                Some(Item::Value(_)) => {
                    if !matches!(node.read_map(id), Err(StoreError::InvalidOperation)) {
                        return Err(format!("step {step}: read_map on a value item did not fail"));
                    }
                }
                other => {
                    let expect: Vec<(Vec<u8>, Vec<u8>)> = match other {
                        Some(Item::Map(m)) => m.into_iter().collect(),
                        _ => vec![],
                    };
                    let mut con = node.read_map(id).map_err(|e| format!("step {step}: read_map failed: {e}"))?;
                    let mut got = vec![];
                    while let Some((k, v)) = con.consume_next().map_err(|e| format!("step {step}: consume_next failed: {e}"))? {
                        got.push((k.to_vec(), v.to_vec()));
                    }
                    if got != expect {
                        return Err(format!("step {step}: read_map yielded {:?}, the writes imply {:?}", got, expect));
                    }
                }
            },
            Op::Reopen(_) | Op::Abandon(..) | Op::Overlap(..) => unreachable!(),
        }
    }
    Ok(())
}

#[test]
fn in_memory_store_contract() {
    let depth: usize = std::env::var("VERIF_BX_DEPTH").ok().and_then(|s| s.parse().ok()).unwrap_or(3);
    let ops = ops();
    let mut evaluations = 0usize;
    let mut failure: Option<String> = None;
    let mut idx = vec![0usize; depth];
    'outer: for len in 1..=depth {
        idx.iter_mut().for_each(|i| *i = 0);
        loop {
            let seq: Vec<Op> = idx[..len].iter().map(|i| ops[*i]).collect();
            evaluations += 1;
            if let Err(e) = run_sequence(&seq) {
                failure = Some(format!("{:?} => {}", seq, e));
                break 'outer;
            }
            let mut k = 0;
            loop {
                if k == len {
                    break;
                }
                idx[k] += 1;
                if idx[k] < ops.len() {
                    break;
                }
                idx[k] = 0;
                k += 1;
            }
            if k == len {
                break;
            }
        }
    }
    println!("BX-SAMPLE depth={depth} universe={} operations over 2 agents x 2 items; e.g. [Put(0,0,1), Reopen(0), Get(0,0)]", ops.len());
    match failure {
        None => println!("BX-OBL in_memory_store::reads_return_what_writes_imply_and_items_are_isolated ok evaluations={evaluations} distinct={evaluations}"),
        Some(w) => {
            println!("BX-FAIL in_memory_store::reads_return_what_writes_imply_and_items_are_isolated witness={w}");
            panic!("contract violated");
        }
    }
}
