// BOUNDED contract check of the route checks of a plane (server/swimos_server_app/src/plane.rs: PlaneBuilder::build,
// PlaneModel::check_meta_collisions) -- property C18, last sentence: a server that accepted its routes resolves every URI to at
// most one agent definition (the introspection meta routes included). (Vec/HashSet of boxed agents and string patterns: outside
// Verus/Kani; the pairwise ambiguity check itself is the bx component route_pattern.)
// EVERY set of up to VERIF_BX_DEPTH routes from a universe of 14 patterns (some overlapping each other, some overlapping the
// node meta route, some the lane meta route) is offered to the real builder.
// Contract: build() succeeds exactly when no two of the routes are ambiguous, and the routes it rejects are exactly the
// ambiguous ones; check_meta_collisions() succeeds exactly when no route is ambiguous with a meta route, and otherwise names
// exactly the colliding routes and the meta routes they collide with.
use super::*;
use std::collections::HashMap;
use swimos_api::agent::{AgentConfig, AgentContext, AgentInitResult};
use swimos_utilities::routing::RouteUri;

struct DummyAgent;
impl Agent for DummyAgent {
    fn run(&self, _route: RouteUri, _route_params: HashMap<String, String>, _config: AgentConfig, _context: Box<dyn AgentContext + Send>) -> futures::future::BoxFuture<'static, AgentInitResult> {
        panic!("Not runnable.");
    }
}

#[test]
fn plane_routes_contract() {
    let depth: usize = std::env::var("VERIF_BX_DEPTH").ok().and_then(|s| s.parse().ok()).unwrap_or(3);
    let texts = [
        "/node", "/node/:id", "/:a/:b", "/other", ":x", "swimos:meta:node/:n", "swimos:meta:node/:n/lane/:l", ":s/:t/lane/:u", "swimos:meta:node/fixed",
        ":a/:b/:c/:d", "/a/b/c/d", "swimos:meta:mesh",
        // parameter-free routes that denote a route already in the universe under a different text (an escape, a scheme)
        "/n%6Fde", "warp:/other",
    ];
    let universe: Vec<RoutePattern> = texts.iter().map(|t| RoutePattern::parse_str(t).expect("pattern")).collect();
    let (node, lane) = (node_pattern(), lane_pattern());
    let n = universe.len();
    let mut evaluations = 0usize;
    let mut failure: Option<String> = None;
    // every subset of size 1..=depth, as an index vector in increasing order
    let mut stack: Vec<Vec<usize>> = (0..n).map(|i| vec![i]).collect();
    while let Some(sel) = stack.pop() {
        evaluations += 1;
        let names: Vec<&str> = sel.iter().map(|i| texts[*i]).collect();
        // reference
        let mut ambiguous: Vec<usize> = vec![];
        for (a, i) in sel.iter().enumerate() {
            for j in sel.iter().skip(a + 1) {
                if RoutePattern::are_ambiguous(&universe[*i], &universe[*j]) {
                    ambiguous.push(*i);
                    ambiguous.push(*j);
                }
            }
        }
        ambiguous.sort();
        ambiguous.dedup();
        let mut builder = PlaneBuilder::with_name("plane");
        for i in &sel {
            builder.add_route(universe[*i].clone(), DummyAgent);
        }
        match builder.build() {
            Ok(model) => {
                if !ambiguous.is_empty() {
                    failure = Some(format!("routes {:?} were accepted although {:?} are ambiguous", names, ambiguous.iter().map(|i| texts[*i]).collect::<Vec<_>>()));
                    break;
                }
                // the meta routes
                let colliding: Vec<usize> = sel.iter().copied().filter(|i| RoutePattern::are_ambiguous(&node, &universe[*i]) || RoutePattern::are_ambiguous(&lane, &universe[*i])).collect();
                match model.check_meta_collisions() {
                    Ok(()) => {
                        if !colliding.is_empty() {
                            failure = Some(format!("routes {:?}: no collision with the introspection routes was reported although {:?} match URIs that a meta route matches", names, colliding.iter().map(|i| texts[*i]).collect::<Vec<_>>()));
                            break;
                        }
                    }
                    Err(e) => {
                        let text = format!("{e}");
                        if colliding.is_empty() {
                            failure = Some(format!("routes {:?}: a collision with the introspection routes was reported ({text}) but there is none", names));
                            break;
                        }
                        for i in &colliding {
                            if !text.contains(&universe[*i].to_string()) {
                                failure = Some(format!("routes {:?}: the report ({text}) does not name the colliding route {}", names, texts[*i]));
                            }
                        }
                        if failure.is_some() {
                            break;
                        }
                    }
                }
            }
            Err(e) => {
                if ambiguous.is_empty() {
                    failure = Some(format!("routes {:?} were rejected ({e}) although no two of them are ambiguous", names));
                    break;
                }
                let text = format!("{e}");
                for i in &ambiguous {
                    if !text.contains(&universe[*i].to_string()) {
                        failure = Some(format!("routes {:?}: the report ({text}) does not name the ambiguous route {}", names, texts[*i]));
                    }
                }
                if failure.is_some() {
                    break;
                }
            }
        }
        if sel.len() < depth {
            for k in (sel[sel.len() - 1] + 1)..n {
                let mut s2 = sel.clone();
                s2.push(k);
                stack.push(s2);
            }
        }
    }
    println!("BX-SAMPLE depth={depth}: every set of up to {depth} routes out of {:?}", texts);
    match failure {
        None => println!("BX-OBL plane::accepted_routes_are_pairwise_unambiguous_and_meta_collisions_are_reported ok evaluations={evaluations} distinct={evaluations}"),
        Some(w) => {
            println!("BX-FAIL plane::accepted_routes_are_pairwise_unambiguous_and_meta_collisions_are_reported witness={w}");
            panic!("contract violated");
        }
    }
}
