// BOUNDED contract check of the agent-side lane write paths (server/swimos_agent/src/lanes/{value,map}/mod.rs:
// ValueLane / MapLane::{set|update|remove|clear, sync, write_to_buffer}) -- properties C01, C02, C03.
// write_to_buffer goes through the Recon encoders (StructuralWritable visitors) and RefCell state: outside Verus; the queues
// underneath ARE proved (units event_queue, write_queues, map_store) and ValueStore is proved with Kani; this harness checks the
// composition, on EVERY operation sequence up to VERIF_BX_DEPTH, by decoding what the lane wrote and replaying it on replicas.
//   value lane: events carry the current value exactly when the lane is dirty; a queued sync id yields SyncEvent(id, current)
//               then Synced(id), ids FIFO; "data still available" is reported exactly while something is owed;
//   map lane:   an always-linked observer applying the events in order holds exactly the lane's map once the lane is drained
//               (replicas converge, however updates were coalesced); a syncing remote that applies its SyncEvents plus every
//               event emitted after its request holds, when it receives Synced, for every key a value (or absence) the lane
//               held for that key at some moment between the request and that instant, and converges with everyone afterwards.
use super::map::MapLane;
use super::value::ValueLane;
use super::LaneItem;
use crate::agent_model::WriteResult;
use bytes::BytesMut;
use std::collections::{BTreeMap, HashMap};
use swimos_agent_protocol::encoding::lane::{RawMapLaneResponseDecoder, RawValueLaneResponseDecoder};
use swimos_agent_protocol::{LaneResponse, MapOperation};
use tokio_util::codec::Decoder;
use uuid::Uuid;

fn num(b: &[u8]) -> i32 {
    std::str::from_utf8(b).unwrap().trim().parse().unwrap()
}

// ------------------------------------------------------------------------------------------------ value lane
#[derive(Clone, Copy, Debug)]
enum VOp {
    Set(i32),
    Sync(u128),
    Write,
}
fn run_value(seq: &[VOp]) -> Result<(), String> {
    let lane = ValueLane::new(0, 0i32);
    let mut cur = 0i32;
    let mut dirty = false;
    let mut syncs: Vec<u128> = vec![];
    let mut next_id = 1u128;
    for (step, op) in seq.iter().enumerate() {
        match *op {
            VOp::Set(v) => {
                lane.set(v);
                cur = v;
                dirty = true;
            }
            VOp::Sync(_) => {
                lane.sync(Uuid::from_u128(next_id));
                syncs.push(next_id);
                next_id += 1;
            }
            VOp::Write => {
                let mut buf = BytesMut::new();
                let res = lane.write_to_buffer(&mut buf);
                let mut dec = RawValueLaneResponseDecoder::default();
                let mut got = vec![];
                while let Some(r) = dec.decode(&mut buf).map_err(|e| format!("step {step}: undecodable output: {e}"))? {
                    got.push(match r {
                        LaneResponse::StandardEvent(b) => format!("event({})", num(&b)),
                        LaneResponse::SyncEvent(id, b) => format!("sync_event({},{})", id.as_u128(), num(&b)),
                        LaneResponse::Synced(id) => format!("synced({})", id.as_u128()),
                        LaneResponse::Initialized => "initialized".to_string(),
                    });
                }
                let expect: Vec<String>;
                let expect_res;
                if !syncs.is_empty() {
                    let id = syncs.remove(0);
                    expect = vec![format!("sync_event({id},{cur})"), format!("synced({id})")];
                    expect_res = if dirty || !syncs.is_empty() { "more" } else { "done" };
                } else if dirty {
                    dirty = false;
                    expect = vec![format!("event({cur})")];
                    expect_res = "done";
                } else {
                    expect = vec![];
                    expect_res = "nodata";
                }
                if got != expect {
                    return Err(format!("step {step}: the lane wrote {:?}, it owes {:?}", got, expect));
                }
                let r = match res {
                    WriteResult::Done => "done",
                    WriteResult::DataStillAvailable => "more",
                    WriteResult::NoData => "nodata",
                    _ => "other",
                };
                if r != expect_res {
                    return Err(format!("step {step}: write_to_buffer reported {r}, expected {expect_res}"));
                }
            }
        }
    }
    Ok(())
}

// ------------------------------------------------------------------------------------------------ map lane
#[derive(Clone, Copy, Debug)]
enum MOp {
    Update(i32, i32),
    Remove(i32),
    Clear,
    Sync,
    Write,
}
fn apply(m: &mut BTreeMap<i32, i32>, op: &MapOperation<i32, i32>) {
    match op {
        MapOperation::Update { key, value } => {
            m.insert(*key, *value);
        }
        MapOperation::Remove { key } => {
            m.remove(key);
        }
        MapOperation::Clear => m.clear(),
    }
}
fn run_map(seq: &[MOp], never_linked: bool) -> Result<(), String> {
    // never_linked: the syncing remotes had not linked before; the runtime links such a remote implicitly when the first response
    // TARGETED at it (a sync event or synced) arrives -- until then the lane's standard events do not reach it
    let mut reached: std::collections::BTreeSet<u128> = Default::default();
    let lane: MapLane<i32, i32> = MapLane::new(0, HashMap::new());
    let mut truth: BTreeMap<i32, i32> = BTreeMap::new();
    let mut observer: BTreeMap<i32, i32> = BTreeMap::new();
    let mut syncers: BTreeMap<u128, BTreeMap<i32, i32>> = BTreeMap::new();
    // for each syncing remote and key: every value (None = absent) the lane held for the key since the sync request
    let mut held: BTreeMap<u128, BTreeMap<i32, Vec<Option<i32>>>> = BTreeMap::new();
    // remotes that have been synced keep following the lane like any linked remote
    let mut followers: Vec<(u128, BTreeMap<i32, i32>)> = vec![];
    let mut next_id = 1u128;
    let mut write = |lane: &MapLane<i32, i32>, observer: &mut BTreeMap<i32, i32>, syncers: &mut BTreeMap<u128, BTreeMap<i32, i32>>,
                     held: &mut BTreeMap<u128, BTreeMap<i32, Vec<Option<i32>>>>, followers: &mut Vec<(u128, BTreeMap<i32, i32>)>, step: usize| -> Result<WriteResult, String> {
        let mut buf = BytesMut::new();
        let res = lane.write_to_buffer(&mut buf);
        let mut dec = RawMapLaneResponseDecoder::default();
        while let Some(r) = dec.decode(&mut buf).map_err(|e| format!("step {step}: undecodable output: {e}"))? {
            let conv = |op: MapOperation<BytesMut, BytesMut>| match op {
                MapOperation::Update { key, value } => MapOperation::Update { key: num(&key), value: num(&value) },
                MapOperation::Remove { key } => MapOperation::Remove { key: num(&key) },
                MapOperation::Clear => MapOperation::Clear,
            };
            match r {
                LaneResponse::StandardEvent(op) => {
                    let op = conv(op);
                    apply(observer, &op);
                    for (id, rep) in syncers.iter_mut() {
                        if !never_linked || reached.contains(id) {
                            apply(rep, &op);
                        }
                    }
                    for (_, rep) in followers.iter_mut() {
                        apply(rep, &op);
                    }
                }
                LaneResponse::SyncEvent(id, op) => {
                    let op = conv(op);
                    reached.insert(id.as_u128());
                    match syncers.get_mut(&id.as_u128()) {
                        Some(rep) => apply(rep, &op),
                        None => return Err(format!("step {step}: a sync event was written for {} which is not syncing", id.as_u128())),
                    }
                }
                LaneResponse::Synced(id) => match syncers.remove(&id.as_u128()) {
                    Some(rep) => {
                        // consistent snapshot: every key holds a value -- or is absent -- exactly as the lane held it at some
                        // moment between the sync request and now
                        let h = held.remove(&id.as_u128()).unwrap_or_default();
                        for k in [1, 2] {
                            let v = rep.get(&k).copied();
                            if !h.get(&k).map(|vs| vs.contains(&v)).unwrap_or(false) {
                                return Err(format!("step {step}: at synced({}) the replica holds {:?} for key {k}, but since the sync request the lane only ever held {:?} for it", id.as_u128(), v, h.get(&k)));
                            }
                        }
                        followers.push((id.as_u128(), rep));
                    }
                    None => return Err(format!("step {step}: synced({}) written twice or for a remote that is not syncing", id.as_u128())),
                },
                LaneResponse::Initialized => {}
            }
        }
        Ok(res)
    };
    for (step, op) in seq.iter().enumerate() {
        match *op {
            MOp::Update(k, v) => {
                lane.update(k, v);
                truth.insert(k, v);
            }
            MOp::Remove(k) => {
                lane.remove(&k);
                truth.remove(&k);
            }
            MOp::Clear => {
                lane.clear();
                truth.clear();
            }
            MOp::Sync => {
                lane.sync(Uuid::from_u128(next_id));
                syncers.insert(next_id, BTreeMap::new());
                held.insert(next_id, BTreeMap::new());
                next_id += 1;
            }
            MOp::Write => {
                write(&lane, &mut observer, &mut syncers, &mut held, &mut followers, step)?;
            }
        }
        for (_, h) in held.iter_mut() {
            for k in [1, 2] {
                let v = truth.get(&k).copied();
                let e = h.entry(k).or_default();
                if !e.contains(&v) {
                    e.push(v);
                }
            }
        }
    }
    // drain
    let mut guard = 0;
    loop {
        guard += 1;
        if guard > 10_000 {
            return Err("the lane never reports that it is drained".into());
        }
        match write(&lane, &mut observer, &mut syncers, &mut held, &mut followers, seq.len())? {
            WriteResult::DataStillAvailable => {}
            _ => break,
        }
    }
    if observer != truth {
        return Err(format!("after draining, a replica that applied every event holds {:?}, the lane holds {:?}", observer, truth));
    }
    if !syncers.is_empty() {
        return Err(format!("after draining, remotes {:?} never received synced", syncers.keys().collect::<Vec<_>>()));
    }
    for (id, rep) in &followers {
        if *rep != truth {
            return Err(format!("after draining, the remote that synced as {id} holds {:?}, the lane holds {:?}", rep, truth));
        }
    }
    // a drained lane owes nothing
    let mut buf = BytesMut::new();
    if !matches!(lane.write_to_buffer(&mut buf), WriteResult::NoData) || !buf.is_empty() {
        return Err("a drained lane still writes data".into());
    }
    Ok(())
}

fn enumerate<T: Copy>(ops: &[T], depth: usize, mut f: impl FnMut(&[T]) -> Result<(), String>) -> (usize, Option<String>) {
    let mut evaluations = 0usize;
    let mut idx = vec![0usize; depth];
    for len in 1..=depth {
        idx.iter_mut().for_each(|i| *i = 0);
        loop {
            let seq: Vec<T> = idx[..len].iter().map(|i| ops[*i]).collect();
            evaluations += 1;
            if let Err(e) = f(&seq) {
                return (evaluations, Some(e));
            }
            let mut k = 0;
            loop {
                if k == len {
                    break;
                }
                idx[k] += 1;
                if idx[k] < ops.len() {
                    break;
                }
                idx[k] = 0;
                k += 1;
            }
            if k == len {
                break;
            }
        }
    }
    (evaluations, None)
}

#[test]
fn lanes_contract() {
    let depth: usize = std::env::var("VERIF_BX_DEPTH").ok().and_then(|s| s.parse().ok()).unwrap_or(6);
    let vops = [VOp::Set(1), VOp::Set(2), VOp::Sync(0), VOp::Write];
    let (n1, f1) = enumerate(&vops, depth + 2, |s| run_value(s).map_err(|e| format!("{:?} => {}", s, e)));
    let mops = [MOp::Update(1, 10), MOp::Update(1, 20), MOp::Update(2, 10), MOp::Remove(1), MOp::Remove(2), MOp::Clear, MOp::Sync, MOp::Write];
    let (n2, f2) = enumerate(&mops, depth, |s| run_map(s, false).map_err(|e| format!("{:?} => {}", s, e)));
    let (n3, f3) = enumerate(&mops, depth, |s| run_map(s, true).map_err(|e| format!("{:?} => {}", s, e)));
    println!("BX-SAMPLE value lane: all sequences of {{set 1, set 2, sync, write}} up to length {}; map lane: all sequences of {{update/remove/clear over keys 1,2, sync, write}} up to length {}, then drained", depth + 2, depth);
    let mut failed = false;
    match f1 {
        None => println!("BX-OBL value_lane::writes_exactly_what_it_owes_in_order ok evaluations={n1} distinct={n1}"),
        Some(w) => {
            println!("BX-FAIL value_lane::writes_exactly_what_it_owes_in_order witness={w}");
            failed = true;
        }
    }
    match f2 {
        None => println!("BX-OBL map_lane::replicas_converge_and_sync_gives_a_consistent_snapshot ok evaluations={n2} distinct={n2}"),
        Some(w) => {
            println!("BX-FAIL map_lane::replicas_converge_and_sync_gives_a_consistent_snapshot witness={w}");
            failed = true;
        }
    }
    match f3 {
        None => println!("BX-OBL map_lane::sync_by_a_remote_that_had_not_linked_gives_a_consistent_snapshot ok evaluations={n3} distinct={n3}"),
        Some(w) => {
            println!("BX-FAIL map_lane::sync_by_a_remote_that_had_not_linked_gives_a_consistent_snapshot witness={w}");
            failed = true;
        }
    }
    assert!(!failed, "contract violated");
}
