// BOUNDED contract check of the key selection behind the take(n) / drop(n) operations of map lanes, map stores and hosted map
// downlinks (server/swimos_agent/src/map_storage/mod.rs: drop_or_take, to_deque) -- properties C02 / C08 / C19: "the first n
// keys" are the first n keys IN THE ORDER OF THE KEYS AS MODEL VALUES (numbers numerically, texts as strings), whatever the
// iteration order of the backing map. (Iterator adaptors, sort_by with a closure, trait-generic maps: outside Verus/Kani.)
// EVERY subset of {-20, -3, 2, 10, 11} (integer keys) and of {"", "10", "2", "B", "a", "ab"} (text keys), every count 0..=7
// and both operations are run on an unordered HashMap and on an ordered BTreeMap.
use super::*;
use std::collections::{BTreeMap, HashMap};

fn check<K>(universe: &[K], label: &str) -> Result<usize, String>
where
    K: StructuralWritable + Clone + Eq + Hash + Ord + std::fmt::Debug,
{
    let mut evaluations = 0;
    for mask in 0u32..(1 << universe.len()) {
        let keys: Vec<K> = universe.iter().enumerate().filter(|(i, _)| mask & (1 << i) != 0).map(|(_, k)| k.clone()).collect();
        // `universe` is listed in the order of the keys as model values
        let hash: HashMap<K, i32> = keys.iter().cloned().map(|k| (k, 0)).collect();
        let tree: BTreeMap<K, i32> = keys.iter().cloned().map(|k| (k, 0)).collect();
        for n in 0..=universe.len() + 1 {
            for kind in [DropOrTake::Drop, DropOrTake::Take] {
                let expected: Vec<K> = match kind {
                    DropOrTake::Drop => keys.iter().take(n).cloned().collect(),
                    DropOrTake::Take => keys.iter().skip(n).cloned().collect(),
                };
                evaluations += 2;
                let got_hash: Vec<K> = drop_or_take(&hash, kind, n).into_iter().collect();
                if got_hash != expected {
                    return Err(format!("{label}: {:?}({n}) on an unordered map with keys {:?} selects {:?} for removal, the key order gives {:?}", kind, keys, got_hash, expected));
                }
                let got_tree: Vec<K> = drop_or_take(&tree, kind, n).into_iter().collect();
                if got_tree != expected {
                    return Err(format!("{label}: {:?}({n}) on an ordered map with keys {:?} selects {:?} for removal, the key order gives {:?}", kind, keys, got_tree, expected));
                }
            }
        }
    }
    Ok(evaluations)
}

#[test]
fn drop_or_take_contract() {
    let ints: Vec<i32> = vec![-20, -3, 2, 10, 11];
    let texts: Vec<String> = ["", "10", "2", "B", "a", "ab"].iter().map(|s| s.to_string()).collect();
    println!("BX-SAMPLE every subset of {:?} and of {:?}, counts 0..=7, Drop and Take, HashMap and BTreeMap", ints, texts);
    let r = check(&ints, "integer keys").and_then(|a| check(&texts, "text keys").map(|b| a + b));
    match r {
        Ok(evaluations) => println!("BX-OBL drop_or_take::selects_by_the_order_of_the_keys_as_values ok evaluations={evaluations} distinct={evaluations}"),
        Err(w) => {
            println!("BX-FAIL drop_or_take::selects_by_the_order_of_the_keys_as_values witness={w}");
            panic!("contract violated");
        }
    }
}
