// BOUNDED contract check of the agent's handler scheduler (server/swimos_agent/src/agent_model/mod.rs: run_handler) --
// property C06. (Generic recursion over trait objects with GAT handlers: outside Verus/Kani.)
// A handler PROGRAM is a list of steps; a step does nothing, fails, or changes a lane (reporting the change with both flags,
// DIRTY only, or TRIGGER_HANDLER only; the lane may also be one the agent does not know). The lifecycle maps each of three
// lanes A, B, C to the program its change triggers (acyclic: the program of a lane only changes later lanes).
// EVERY combination of a top-level program of up to 3 steps and consequence programs of up to 2 (A), 2 (B), 1 (C) steps is run
// through the REAL run_handler with real ActionContext/Modification/StepResult values, and the execution trace is compared
// with the reference depth-first interpreter below.
// Contract (from the property): handlers never overlap -- a handler that changes a lane is suspended, the handler triggered by
// that change runs to completion, only then does the original resume; each reported change triggers its handler exactly once
// (and marks the lane dirty exactly when DIRTY is set); when a handler fails nothing further of it, or of the handlers it
// interrupted, is executed and the failure is reported; no handler is stepped after it completed.
use super::*;
use crate::event_handler::{HandlerAction, HandlerActionExt, Modification, Sequentially, StepResult};
use crate::test_context::dummy_context;
use std::cell::RefCell;
use std::rc::Rc;

#[derive(Clone, Copy, Debug, PartialEq)]
enum Kind {
    Both,
    DirtyOnly,
    TriggerOnly,
}
#[derive(Clone, Copy, Debug, PartialEq)]
enum Step {
    Nop,
    Fail,
    Touch(u64, Kind),
}
const UNKNOWN_LANE: u64 = 9;
const NAMES: [&str; 3] = ["a", "b", "c"];

type Trace = Rc<RefCell<Vec<String>>>;
struct Agent {
    trace: Trace,
}
struct Prog {
    name: String,
    steps: Vec<Step>,
    at: usize,
}
impl HandlerAction<Agent> for Prog {
    type Completion = ();
    fn step(&mut self, _action_context: &mut ActionContext<Agent>, _meta: AgentMetadata, context: &Agent) -> StepResult<()> {
        let Prog { name, steps, at } = self;
        if *at >= steps.len() {
            context.trace.borrow_mut().push(format!("{name}: STEPPED AFTER THE END"));
            return StepResult::after_done();
        }
        let i = *at;
        *at += 1;
        context.trace.borrow_mut().push(format!("{name}.{i}"));
        let last = *at == steps.len();
        let modified_item = match steps[i] {
            Step::Nop => None,
            Step::Fail => return StepResult::Fail(EventHandlerError::IncompleteCommand),
            Step::Touch(id, Kind::Both) => Some(Modification::of(id)),
            Step::Touch(id, Kind::DirtyOnly) => Some(Modification::no_trigger(id)),
            Step::Touch(id, Kind::TriggerOnly) => Some(Modification::trigger_only(id)),
        };
        if last {
            StepResult::Complete { modified_item, result: () }
        } else {
            StepResult::Continue { modified_item }
        }
    }
}
struct Lifecycle {
    consequences: [Option<Vec<Step>>; 3],
    fired: RefCell<[usize; 3]>,
}
impl ItemEvent<Agent> for Lifecycle {
    type ItemEventHandler<'a> = Prog where Self: 'a;
    fn item_event<'a>(&'a self, _context: &Agent, item_name: &'a str) -> Option<Prog> {
        let l = NAMES.iter().position(|n| *n == item_name)?;
        let n = {
            let mut f = self.fired.borrow_mut();
            f[l] += 1;
            f[l]
        };
        self.consequences[l].clone().map(|steps| Prog { name: format!("{}#{n}", NAMES[l]), steps, at: 0 })
    }
}

// reference: depth-first, run-to-completion interpreter
fn reference(name: &str, steps: &[Step], cons: &[Option<Vec<Step>>; 3], fired: &mut [usize; 3], trace: &mut Vec<String>, dirty: &mut HashSet<u64>) -> bool {
    for (i, s) in steps.iter().enumerate() {
        trace.push(format!("{name}.{i}"));
        match *s {
            Step::Nop => {}
            Step::Fail => return false,
            Step::Touch(id, kind) => {
                if id != UNKNOWN_LANE {
                    if kind != Kind::TriggerOnly {
                        dirty.insert(id);
                    }
                    if kind != Kind::DirtyOnly {
                        let l = id as usize;
                        fired[l] += 1;
                        if let Some(c) = &cons[l] {
                            let n = fired[l];
                            if !reference(&format!("{}#{n}", NAMES[l]), c, cons, fired, trace, dirty) {
                                return false;
                            }
                        }
                    }
                }
            }
        }
    }
    true
}

fn programs(targets: &[u64], max_len: usize, kinds: &[Kind]) -> Vec<Vec<Step>> {
    let mut alphabet = vec![Step::Nop, Step::Fail];
    for t in targets {
        for k in kinds {
            alphabet.push(Step::Touch(*t, *k));
        }
    }
    let mut out: Vec<Vec<Step>> = vec![];
    let mut layer: Vec<Vec<Step>> = vec![vec![]];
    for _ in 0..max_len {
        let mut next = vec![];
        for p in &layer {
            for s in &alphabet {
                let mut q = p.clone();
                q.push(*s);
                next.push(q);
            }
        }
        out.extend(next.iter().cloned());
        layer = next;
    }
    out
}

fn run_case(top: &[Step], cons: &[Option<Vec<Step>>; 3]) -> Result<(), String> {
    let trace: Trace = Default::default();
    let agent = Agent { trace: trace.clone() };
    let lifecycle = Lifecycle { consequences: cons.clone(), fired: RefCell::new([0; 3]) };
    let items: HashMap<u64, Text> = (0..3u64).map(|i| (i, Text::new(NAMES[i as usize]))).collect();
    let uri = RouteUri::try_from("/node").expect("uri");
    let route_params = HashMap::new();
    let config = AgentConfig::DEFAULT;
    let meta = AgentMetadata::new(&uri, &route_params, &config);
    let mut join_lane_init = HashMap::new();
    let mut command_buffer = BytesMut::new();
    let mut action_context = dummy_context(&mut join_lane_init, &mut command_buffer);
    let mut collected: HashSet<u64> = HashSet::new();
    let result = run_handler(&mut action_context, meta, &agent, &lifecycle, Prog { name: "top".into(), steps: top.to_vec(), at: 0 }, &items, &mut collected);

    let mut exp_trace = vec![];
    let mut exp_dirty = HashSet::new();
    let mut fired = [0usize; 3];
    let exp_ok = reference("top", top, cons, &mut fired, &mut exp_trace, &mut exp_dirty);
    let got_trace = trace.borrow().clone();
    if got_trace != exp_trace {
        return Err(format!("execution order was {:?}, depth-first run-to-completion order is {:?}", got_trace, exp_trace));
    }
    if result.is_ok() != exp_ok {
        return Err(format!("run_handler returned {:?} but the reference {}", result.map_err(|e| e.to_string()), if exp_ok { "succeeds" } else { "fails" }));
    }
    if collected != exp_dirty {
        return Err(format!("lanes marked dirty were {:?}, expected {:?}", collected, exp_dirty));
    }
    Ok(())
}

// ---- the real sequencing combinators over the same step programs (property C06: "... and_then / followed_by ...")
#[derive(Clone, Copy, Debug)]
enum Comb {
    FollowedBy,
    AndThen,
    MapThenFollowedBy,
    Sequentially,
    NestedLeft,  // (p1.followed_by(p2)).and_then(|_| p3)
    NestedRight, // p1.followed_by(p2.followed_by(p3))
}
fn run_combined(comb: Comb, parts: &[Vec<Step>; 3], cons: &[Option<Vec<Step>>; 3]) -> Result<(), String> {
    let trace: Trace = Default::default();
    let agent = Agent { trace: trace.clone() };
    let lifecycle = Lifecycle { consequences: cons.clone(), fired: RefCell::new([0; 3]) };
    let items: HashMap<u64, Text> = (0..3u64).map(|i| (i, Text::new(NAMES[i as usize]))).collect();
    let uri = RouteUri::try_from("/node").expect("uri");
    let route_params = HashMap::new();
    let config = AgentConfig::DEFAULT;
    let meta = AgentMetadata::new(&uri, &route_params, &config);
    let mut join_lane_init = HashMap::new();
    let mut command_buffer = BytesMut::new();
    let mut action_context = dummy_context(&mut join_lane_init, &mut command_buffer);
    let mut collected: HashSet<u64> = HashSet::new();
    let mk = |i: usize| Prog { name: format!("p{}", i + 1), steps: parts[i].clone(), at: 0 };
    let (p1, p2, p3) = (mk(0), mk(1), mk(2));
    let n_parts;
    let result = match comb {
        Comb::FollowedBy => {
            n_parts = 2;
            run_handler(&mut action_context, meta, &agent, &lifecycle, p1.followed_by(p2), &items, &mut collected)
        }
        Comb::AndThen => {
            n_parts = 2;
            run_handler(&mut action_context, meta, &agent, &lifecycle, p1.and_then(move |_: ()| p2), &items, &mut collected)
        }
        Comb::MapThenFollowedBy => {
            n_parts = 2;
            run_handler(&mut action_context, meta, &agent, &lifecycle, p1.map(|_: ()| 7).followed_by(p2), &items, &mut collected)
        }
        Comb::Sequentially => {
            n_parts = 3;
            run_handler(&mut action_context, meta, &agent, &lifecycle, Sequentially::new(vec![p1, p2, p3]), &items, &mut collected)
        }
        Comb::NestedLeft => {
            n_parts = 3;
            run_handler(&mut action_context, meta, &agent, &lifecycle, p1.followed_by(p2).and_then(move |_: ()| p3), &items, &mut collected)
        }
        Comb::NestedRight => {
            n_parts = 3;
            run_handler(&mut action_context, meta, &agent, &lifecycle, p1.followed_by(p2.followed_by(p3)), &items, &mut collected)
        }
    };
    // reference: the parts run one after the other, each depth-first; a failure stops everything
    let mut exp_trace = vec![];
    let mut exp_dirty = HashSet::new();
    let mut fired = [0usize; 3];
    let mut exp_ok = true;
    for i in 0..n_parts {
        if !reference(&format!("p{}", i + 1), &parts[i], cons, &mut fired, &mut exp_trace, &mut exp_dirty) {
            exp_ok = false;
            break;
        }
    }
    let got_trace = trace.borrow().clone();
    if got_trace != exp_trace {
        return Err(format!("execution order was {:?}, sequential depth-first order is {:?}", got_trace, exp_trace));
    }
    if result.is_ok() != exp_ok {
        return Err(format!("run_handler returned {:?} but the reference {}", result.map_err(|e| e.to_string()), if exp_ok { "succeeds" } else { "fails" }));
    }
    if collected != exp_dirty {
        return Err(format!("lanes marked dirty were {:?}, expected {:?}", collected, exp_dirty));
    }
    Ok(())
}

#[test]
fn run_handler_contract() {
    let depth: usize = std::env::var("VERIF_BX_DEPTH").ok().and_then(|s| s.parse().ok()).unwrap_or(3);
    let all = [Kind::Both, Kind::DirtyOnly, Kind::TriggerOnly];
    let both = [Kind::Both];
    let tops = programs(&[0, 1, 2, UNKNOWN_LANE], depth, if depth >= 4 { &both[..] } else { &all[..] });
    let mut cons_a: Vec<Option<Vec<Step>>> = vec![None];
    cons_a.extend(programs(&[1, 2], 2, &both).into_iter().map(Some));
    let mut cons_b: Vec<Option<Vec<Step>>> = vec![None];
    cons_b.extend(programs(&[2], 2, &both).into_iter().map(Some));
    let mut cons_c: Vec<Option<Vec<Step>>> = vec![None];
    cons_c.extend(programs(&[], 1, &both).into_iter().map(Some));
    let mut evaluations = 0usize;
    let mut failure: Option<String> = None;
    'outer: for top in &tops {
        // consequence programs of lanes the top-level program cannot reach are irrelevant: still enumerated (cheap)
        for a in &cons_a {
            for b in &cons_b {
                for c in &cons_c {
                    evaluations += 1;
                    let cons = [a.clone(), b.clone(), c.clone()];
                    if let Err(e) = run_case(top, &cons) {
                        failure = Some(format!("top={:?} on_a={:?} on_b={:?} on_c={:?} => {}", top, a, b, c, e));
                        break 'outer;
                    }
                }
            }
        }
    }
    // combinators: every triple of non-empty programs of up to 2 steps over {nop, fail, change a, change b}, consequences on_a in
    // {none, [change c], [nop, change c], [fail]}, on_b in {none, [nop]}, on_c = [nop]
    let parts_alpha = programs(&[0, 1], 2, &both);
    let cons_a2: Vec<Option<Vec<Step>>> = vec![None, Some(vec![Step::Touch(2, Kind::Both)]), Some(vec![Step::Nop, Step::Touch(2, Kind::Both)]), Some(vec![Step::Fail])];
    let cons_b2: Vec<Option<Vec<Step>>> = vec![None, Some(vec![Step::Nop])];
    let mut comb_evals = 0usize;
    let mut comb_failure: Option<String> = None;
    'combs: for comb in [Comb::FollowedBy, Comb::AndThen, Comb::MapThenFollowedBy, Comb::Sequentially, Comb::NestedLeft, Comb::NestedRight] {
        let three = matches!(comb, Comb::Sequentially | Comb::NestedLeft | Comb::NestedRight);
        for p1 in &parts_alpha {
            for p2 in &parts_alpha {
                let thirds: Vec<Vec<Step>> = if three { parts_alpha.iter().filter(|p| p.len() == 1).cloned().collect() } else { vec![vec![Step::Nop]] };
                for p3 in &thirds {
                    for a in &cons_a2 {
                        for b in &cons_b2 {
                            comb_evals += 1;
                            let cons = [a.clone(), b.clone(), Some(vec![Step::Nop])];
                            if let Err(e) = run_combined(comb, &[p1.clone(), p2.clone(), p3.clone()], &cons) {
                                comb_failure = Some(format!("{:?} p1={:?} p2={:?} p3={:?} on_a={:?} on_b={:?} => {}", comb, p1, p2, p3, a, b, e));
                                break 'combs;
                            }
                        }
                    }
                }
            }
        }
    }
    println!("BX-SAMPLE depth={depth}: {} top-level programs x {} x {} x {} consequence programs; e.g. top=[Touch(a), Nop] on_a=[Touch(b), Fail] on_b=[Nop]", tops.len(), cons_a.len(), cons_b.len(), cons_c.len());
    let mut failed = false;
    match failure {
        None => println!("BX-OBL run_handler::depth_first_exactly_once_and_failure_stops_everything ok evaluations={evaluations} distinct={evaluations}"),
        Some(w) => {
            println!("BX-FAIL run_handler::depth_first_exactly_once_and_failure_stops_everything witness={w}");
            failed = true;
        }
    }
    match comb_failure {
        None => println!("BX-OBL run_handler::sequencing_combinators_pass_on_every_change_in_order ok evaluations={comb_evals} distinct={comb_evals}"),
        Some(w) => {
            println!("BX-FAIL run_handler::sequencing_combinators_pass_on_every_change_in_order witness={w}");
            failed = true;
        }
    }
    if failed {
        panic!("contract violated");
    }
}
