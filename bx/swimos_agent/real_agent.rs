// BOUNDED contract check of a REAL agent end to end inside the agent crate: a derived agent (#[derive(AgentLaneModel)]) with
// four real ValueLanes -- one plain, a chain source -> target -> last_lane whose lifecycle handlers (real #[lifecycle] macro,
// real HandlerContext::set_value / effect / followed_by) set the next lane, `target` renamed with #[item(name = ..)] and
// `last_lane` renamed by a naming convention -- initialised and run by the real AgentModel::initialize_agent / run_agent /
// run_handler against a fake runtime that only hands out channels.
// Properties C06 (handlers run depth-first, exactly once per change, with the TRUE previous value, also for renamed lanes) and
// C01 (once quiescent, the last event each lane emitted is its current value; events in order).
// EVERY sequence up to VERIF_BX_DEPTH over {command v to plain / source / renamed / lastLane, sync a lane, drain} is run, one
// input at a time, followed by a final drain; commands carry increasing numbers.
use super::lane_io::{ValueLaneReceiver, ValueLaneSender};
use crate::{
    agent_lifecycle::HandlerContext,
    agent_model::AgentModel,
    event_handler::{EventHandler, HandlerActionExt},
    lanes::ValueLane,
};
use futures::{
    future::{ready, BoxFuture},
    FutureExt,
};
use parking_lot::Mutex;
use std::{collections::HashMap, sync::Arc, time::Duration};
use swimos_agent_derive::{lifecycle, AgentLaneModel};
use swimos_agent_protocol::LaneResponse;
use swimos_api::{
    agent::{AgentConfig, AgentContext, DownlinkKind, HttpLaneRequestChannel, LaneConfig, StoreKind, WarpLaneKind},
    error::{AgentRuntimeError, DownlinkRuntimeError, OpenStoreError},
};
use swimos_utilities::{
    byte_channel::{byte_channel, ByteReader, ByteWriter},
    non_zero_usize,
    routing::RouteUri,
};
use uuid::Uuid;

#[derive(AgentLaneModel)]
#[agent(root(crate), transient)]
struct DemoAgent {
    plain: ValueLane<i32>,
    source: ValueLane<i32>,
    #[item(name = "renamed")]
    target: ValueLane<i32>,
    #[item(convention = "camel")]
    last_lane: ValueLane<i32>,
}
impl DemoAgent {
    const TARGET: fn(&DemoAgent) -> &ValueLane<i32> = |agent| &agent.target;
    const LAST_LANE: fn(&DemoAgent) -> &ValueLane<i32> = |agent| &agent.last_lane;
}
type Log = Arc<Mutex<Vec<String>>>;
#[derive(Default, Clone)]
struct DemoLifecycle(Log);
impl DemoLifecycle {
    fn push(&self, s: String) {
        self.0.lock().push(s);
    }
}
#[lifecycle(DemoAgent, agent_root(crate))]
impl DemoLifecycle {
    #[on_start]
    fn on_start(&self, context: HandlerContext<DemoAgent>) -> impl EventHandler<DemoAgent> + '_ {
        context.effect(move || self.push("start".into()))
    }
    #[on_set(plain)]
    fn on_set_plain(&self, context: HandlerContext<DemoAgent>, value: &i32, prev: Option<i32>) -> impl EventHandler<DemoAgent> + '_ {
        let n = *value;
        context.effect(move || self.push(format!("plain({n},{:?})", prev)))
    }
    #[on_set(source)]
    fn on_set_source(&self, context: HandlerContext<DemoAgent>, value: &i32, prev: Option<i32>) -> impl EventHandler<DemoAgent> + '_ {
        let n = *value;
        context
            .effect(move || self.push(format!("source({n},{:?})", prev)))
            .followed_by(context.set_value(DemoAgent::TARGET, n + 1000))
            .followed_by(context.effect(move || self.push(format!("source({n}) resumed"))))
    }
    #[on_set(target)]
    fn on_set_target(&self, context: HandlerContext<DemoAgent>, value: &i32, prev: Option<i32>) -> impl EventHandler<DemoAgent> + '_ {
        let n = *value;
        context.effect(move || self.push(format!("target({n},{:?})", prev))).followed_by(context.set_value(DemoAgent::LAST_LANE, n + 1000))
    }
    #[on_set(last_lane)]
    fn on_set_last(&self, context: HandlerContext<DemoAgent>, value: &i32, prev: Option<i32>) -> impl EventHandler<DemoAgent> + '_ {
        let n = *value;
        context.effect(move || self.push(format!("last({n},{:?})", prev)))
    }
}
type Io = (ByteWriter, ByteReader);
#[derive(Default, Clone)]
struct DemoContext {
    lanes: Arc<Mutex<HashMap<String, Io>>>,
    cmd_rx: Arc<Mutex<Option<ByteReader>>>,
}
impl AgentContext for DemoContext {
    fn command_channel(&self) -> BoxFuture<'static, Result<ByteWriter, DownlinkRuntimeError>> {
        let (tx, rx) = byte_channel(non_zero_usize!(4096));
        *self.cmd_rx.lock() = Some(rx);
        ready(Ok(tx)).boxed()
    }
    fn add_lane(&self, name: &str, _lane_kind: WarpLaneKind, _config: LaneConfig) -> BoxFuture<'static, Result<(ByteWriter, ByteReader), AgentRuntimeError>> {
        let (tx_in, rx_in) = byte_channel(non_zero_usize!(4096));
        let (tx_out, rx_out) = byte_channel(non_zero_usize!(4096));
        self.lanes.lock().insert(name.to_string(), (tx_in, rx_out));
        ready(Ok((tx_out, rx_in))).boxed()
    }
    fn open_downlink(&self, _host: Option<&str>, _node: &str, _lane: &str, _kind: DownlinkKind) -> BoxFuture<'static, Result<(ByteWriter, ByteReader), DownlinkRuntimeError>> {
        panic!("Unexpected downlink.");
    }
    fn add_store(&self, _name: &str, _kind: StoreKind) -> BoxFuture<'static, Result<(ByteWriter, ByteReader), OpenStoreError>> {
        panic!("Unexpected store.");
    }
    fn add_http_lane(&self, _name: &str) -> BoxFuture<'static, Result<HttpLaneRequestChannel, AgentRuntimeError>> {
        panic!("Unexpected HTTP lane.");
    }
}

const LANES: [&str; 4] = ["plain", "source", "renamed", "lastLane"];
#[derive(Clone, Copy, Debug)]
enum Op {
    Cmd(usize),
    Sync(usize),
    Drain,
}
async fn settle() {
    for _ in 0..24 {
        tokio::task::yield_now().await;
    }
}

async fn run_sequence(seq: &[Op]) -> Result<(), String> {
    let template = DemoLifecycle::default();
    let model = AgentModel::new(DemoAgent::default, template.clone().into_lifecycle());
    let context = DemoContext::default();
    let task = model
        .initialize_agent(RouteUri::try_from("/node").expect("uri"), HashMap::new(), AgentConfig::DEFAULT, Box::new(context.clone()))
        .await
        .map_err(|e| format!("initialisation failed: {e}"))?;
    let mut io: HashMap<String, (ValueLaneSender, ValueLaneReceiver)> =
        context.lanes.lock().drain().map(|(name, (tx, rx))| (name, (ValueLaneSender::new(tx), ValueLaneReceiver::new(rx)))).collect();
    for l in LANES {
        if !io.contains_key(l) {
            return Err(format!("the agent did not register lane {l}"));
        }
    }
    let task = tokio::spawn(task);
    settle().await;
    // model: the value of each lane, the expected lifecycle log, what each lane's output owes
    let mut value = [0i32; 4];
    let mut expected_log: Vec<String> = vec!["start".into()];
    let mut last_seen: [Option<i32>; 4] = [None; 4];
    // every value each lane took, in order; events must be a subsequence of it (intermediate values may be skipped)
    let mut history: [Vec<i32>; 4] = Default::default();
    let mut pos = [0usize; 4];
    let mut changed = [false; 4];
    let mut syncs: [Vec<Uuid>; 4] = Default::default();
    // every value a lane has held since its oldest unanswered sync request
    let mut held: [Vec<i32>; 4] = Default::default();
    let mut answered = [0usize; 4];
    let mut next = 1i32;
    let mut next_sync = 1u128;
    let mut all: Vec<Op> = seq.to_vec();
    all.push(Op::Drain);
    for (step, op) in all.iter().enumerate() {
        match *op {
            Op::Cmd(l) => {
                let v = next;
                next += 1;
                io.get_mut(LANES[l]).unwrap().0.command(v).await;
                // reference: the documented handler order, depth-first, with the true previous values
                let mut set = |lane: usize, v: i32, log: &mut Vec<String>, value: &mut [i32; 4]| {
                    let prev = value[lane];
                    value[lane] = v;
                    history[lane].push(v);
                    prev
                };
                match l {
                    0 => {
                        let p = set(0, v, &mut expected_log, &mut value);
                        expected_log.push(format!("plain({v},Some({p}))"));
                        changed[0] = true;
                    }
                    1 => {
                        let p = set(1, v, &mut expected_log, &mut value);
                        expected_log.push(format!("source({v},Some({p}))"));
                        let pt = set(2, v + 1000, &mut expected_log, &mut value);
                        expected_log.push(format!("target({},Some({pt}))", v + 1000));
                        let pl = set(3, v + 2000, &mut expected_log, &mut value);
                        expected_log.push(format!("last({},Some({pl}))", v + 2000));
                        expected_log.push(format!("source({v}) resumed"));
                        changed[1] = true;
                        changed[2] = true;
                        changed[3] = true;
                    }
                    2 => {
                        let pt = set(2, v, &mut expected_log, &mut value);
                        expected_log.push(format!("target({v},Some({pt}))"));
                        let pl = set(3, v + 1000, &mut expected_log, &mut value);
                        expected_log.push(format!("last({},Some({pl}))", v + 1000));
                        changed[2] = true;
                        changed[3] = true;
                    }
                    _ => {
                        let pl = set(3, v, &mut expected_log, &mut value);
                        expected_log.push(format!("last({v},Some({pl}))"));
                        changed[3] = true;
                    }
                }
            }
            Op::Sync(l) => {
                let id = Uuid::from_u128(next_sync);
                next_sync += 1;
                io.get_mut(LANES[l]).unwrap().0.sync(id).await;
                if syncs[l].len() == answered[l] {
                    held[l] = vec![value[l]];
                }
                syncs[l].push(id);
            }
            Op::Drain => {
                settle().await;
                for (l, name) in LANES.iter().enumerate() {
                    let rx = &mut io.get_mut(*name).unwrap().1;
                    let mut empty = 0;
                    let mut half: Option<Uuid> = None;
                    while empty < 5 {
                        match rx.get_response().now_or_never() {
                            Some(LaneResponse::StandardEvent(body)) => {
                                empty = 0;
                                let n: i32 = std::str::from_utf8(body.as_ref()).map_err(|e| e.to_string())?.parse().map_err(|_| "bad integer".to_string())?;
                                match history[l][pos[l]..].iter().position(|h| *h == n) {
                                    Some(j) => pos[l] += j + 1,
                                    None => return Err(format!("step {step}: lane {name} emitted event {n} (after {:?}); the values it took since are {:?}", last_seen[l], &history[l][pos[l]..])),
                                }
                                last_seen[l] = Some(n);
                            }
                            Some(LaneResponse::SyncEvent(id, body)) => {
                                empty = 0;
                                let n: i32 = std::str::from_utf8(body.as_ref()).map_err(|e| e.to_string())?.parse().map_err(|_| "bad integer".to_string())?;
                                if syncs[l].get(answered[l]) != Some(&id) || half.is_some() {
                                    return Err(format!("step {step}: lane {name}: unexpected sync event for {id}"));
                                }
                                if !held[l].contains(&n) {
                                    return Err(format!("step {step}: lane {name}: the sync event carries {n} but since the request the lane only ever held {:?}", held[l]));
                                }
                                half = Some(id);
                            }
                            Some(LaneResponse::Synced(id)) => {
                                empty = 0;
                                if half != Some(id) {
                                    return Err(format!("step {step}: lane {name}: synced for {id} without its sync event"));
                                }
                                half = None;
                                answered[l] += 1;
                            }
                            Some(ow) => return Err(format!("step {step}: lane {name}: unexpected response {:?}", ow)),
                            None => {
                                empty += 1;
                                settle().await;
                            }
                        }
                    }
                    if changed[l] && last_seen[l] != Some(value[l]) {
                        return Err(format!("step {step}: the agent is quiescent and lane {name} drained; its last event was {:?} but it holds {}", last_seen[l], value[l]));
                    }
                    if answered[l] != syncs[l].len() || half.is_some() {
                        return Err(format!("step {step}: lane {name}: {} sync requests, {} answered", syncs[l].len(), answered[l]));
                    }
                }
            }
        }
        for l in 0..4 {
            if syncs[l].len() > answered[l] && !held[l].contains(&value[l]) {
                held[l].push(value[l]);
            }
        }
        settle().await;
        let log = template.0.lock().clone();
        if log != expected_log {
            return Err(format!("step {step}: lifecycle handlers ran as {:?}; the documented order gives {:?}", log, expected_log));
        }
        if task.is_finished() {
            return Err(format!("step {step}: the agent task stopped"));
        }
    }
    task.abort();
    Ok(())
}

#[test]
fn real_agent_contract() {
    let depth: usize = std::env::var("VERIF_BX_DEPTH").ok().and_then(|s| s.parse().ok()).unwrap_or(4);
    let mut ops = vec![Op::Drain];
    for l in 0..4 {
        ops.push(Op::Cmd(l));
    }
    ops.push(Op::Sync(1));
    ops.push(Op::Sync(2));
    let rt = tokio::runtime::Builder::new_current_thread().enable_time().build().expect("runtime");
    let mut evaluations = 0usize;
    let mut failure: Option<String> = None;
    let mut idx = vec![0usize; depth];
    'outer: for len in 1..=depth {
        idx.iter_mut().for_each(|i| *i = 0);
        loop {
            let seq: Vec<Op> = idx[..len].iter().map(|i| ops[*i]).collect();
            evaluations += 1;
            if let Err(e) = rt.block_on(async { tokio::time::timeout(Duration::from_secs(20), run_sequence(&seq)).await.unwrap_or_else(|_| Err("timed out".to_string())) }) {
                failure = Some(format!("{:?} => {}", seq, e));
                break 'outer;
            }
            let mut k = 0;
            loop {
                if k == len {
                    break;
                }
                idx[k] += 1;
                if idx[k] < ops.len() {
                    break;
                }
                idx[k] = 0;
                k += 1;
            }
            if k == len {
                break;
            }
        }
    }
    println!("BX-SAMPLE depth={depth} inputs {{command to plain / source / renamed / lastLane, sync source, sync renamed, drain}}; e.g. [Cmd(source), Sync(renamed), Cmd(renamed), Drain]");
    match failure {
        None => println!("BX-OBL real_agent::handlers_depth_first_once_with_true_previous_values_and_lanes_settle ok evaluations={evaluations} distinct={evaluations}"),
        Some(w) => {
            println!("BX-FAIL real_agent::handlers_depth_first_once_with_true_previous_values_and_lanes_settle witness={w}");
            panic!("contract violated");
        }
    }
}
