// BOUNDED contract check of the agent-hosted map downlink state (server/swimos_agent/src/agent_model/downlink/hosted/map/
// mod.rs: MapDlState::{update, remove, clear, drop, take}) -- property C08: the hosted downlink's state is the same fold of
// the received notifications as the stand-alone client's (bx `map_task`), with and without lifecycle dispatch.
// (RefCell + closures + boxed handlers: outside Verus/Kani.) Checked on EVERY operation sequence up to VERIF_BX_DEPTH over keys
// {1,2,3}, values {10,20}, take/drop counts {0,1,2}; take/drop use the documented key order (keys in their Recon/Value order).
use super::*;
use crate::downlink_lifecycle::StatelessMapDownlinkLifecycle;
use std::collections::BTreeMap;

#[derive(Clone, Copy, Debug)]
enum Op {
    Update(i32, i32),
    Remove(i32),
    Clear,
    Take(usize),
    Drop(usize),
}
fn ops() -> Vec<Op> {
    let mut v = vec![Op::Clear, Op::Take(0), Op::Take(1), Op::Take(2), Op::Drop(0), Op::Drop(1), Op::Drop(2)];
    for k in [1, 2, 3] {
        v.push(Op::Remove(k));
        for x in [10, 20] {
            v.push(Op::Update(k, x));
        }
    }
    v
}
struct Ctx;
type LC = StatelessMapDownlinkLifecycle<Ctx, i32, i32, HashMap<i32, i32>>;

fn run_sequence(seq: &[Op], dispatch: bool) -> Result<(), String> {
    let state: MapDlState<i32, i32> = MapDlState::default();
    let lc = LC::default();
    let lifecycle: Option<&LC> = if dispatch { Some(&lc) } else { None };
    let mut model: BTreeMap<i32, i32> = BTreeMap::new();
    for (step, op) in seq.iter().enumerate() {
        match *op {
            Op::Update(k, v) => {
                let _ = state.update::<LC, Ctx>(k, v, lifecycle);
                model.insert(k, v);
            }
            Op::Remove(k) => {
                let _ = state.remove::<LC, Ctx>(k, lifecycle);
                model.remove(&k);
            }
            Op::Clear => {
                let _ = state.clear();
                model.clear();
            }
            Op::Take(n) => {
                let _ = state.take::<LC, Ctx>(n, lifecycle);
                let keep: Vec<i32> = model.keys().copied().take(n).collect();
                model.retain(|k, _| keep.contains(k));
            }
            Op::Drop(n) => {
                let _ = state.drop::<LC, Ctx>(n, lifecycle);
                let gone: Vec<i32> = model.keys().copied().take(n).collect();
                model.retain(|k, _| !gone.contains(k));
            }
        }
        let got: BTreeMap<i32, i32> = state.with(|inner| inner.map.iter().map(|(k, v)| (*k, *v)).collect());
        if got != model {
            return Err(format!("step {step}: the hosted downlink holds {:?}, the notifications received imply {:?}", got, model));
        }
    }
    Ok(())
}

#[test]
fn hosted_map_downlink_contract() {
    let depth: usize = std::env::var("VERIF_BX_DEPTH").ok().and_then(|s| s.parse().ok()).unwrap_or(4);
    let ops = ops();
    let mut evaluations = 0usize;
    let mut failure: Option<String> = None;
    'outer: for dispatch in [false, true] {
        let mut idx = vec![0usize; depth];
        for len in 1..=depth {
            idx.iter_mut().for_each(|i| *i = 0);
            loop {
                let seq: Vec<Op> = idx[..len].iter().map(|i| ops[*i]).collect();
                evaluations += 1;
                if let Err(e) = run_sequence(&seq, dispatch) {
                    failure = Some(format!("dispatch={dispatch} {:?} => {}", seq, e));
                    break 'outer;
                }
                let mut k = 0;
                loop {
                    if k == len {
                        break;
                    }
                    idx[k] += 1;
                    if idx[k] < ops.len() {
                        break;
                    }
                    idx[k] = 0;
                    k += 1;
                }
                if k == len {
                    break;
                }
            }
        }
    }
    println!("BX-SAMPLE depth={depth} universe={} operations over keys {{1,2,3}}; e.g. [Update(2,10), Update(1,20), Take(1)]", ops.len());
    match failure {
        None => println!("BX-OBL hosted_map_downlink::state_is_fold_of_notifications ok evaluations={evaluations} distinct={evaluations}"),
        Some(w) => {
            println!("BX-FAIL hosted_map_downlink::state_is_fold_of_notifications witness={w}");
            panic!("contract violated");
        }
    }
}
