// BOUNDED contract check of the agent-hosted map downlink (server/swimos_agent/src/agent_model/downlink/hosted/map/mod.rs:
// HostedMapDownlink::next_event and MapDlState::{update, remove, clear, take, drop}) -- property C08.
// (Boxed event handlers, RefCell state, atomics: outside Verus/Kani.) Each notification is placed in the downlink's `next`
// slot (what select_next does after decoding a frame), next_event is called and the returned handler is run to completion.
// Checked on EVERY well-behaved notification sequence up to VERIF_BX_DEPTH over keys {1,2,3}, values {10,20}, take/drop
// counts {0,1,2}, for the four settings of (events_when_not_synced, terminate_on_unlinked), including relinks and RECONNECTS (the agent calling
// `connect` again with fresh channels, as it does after a failed write).
// Contract = the one checked for the stand-alone client map downlink (bx map_task): the map is the fold of the notifications
// received since it linked, callbacks fire exactly when dispatch is enabled, in order, with the removed/old/new values and the
// map of that moment; on_synced sees the state of that moment.
// The ONE place where the hosted downlink deliberately differs from the client (pinned by its own test
// emit_drop_all_handlers) is Drop(n) with n >= len: it reports on_clear(old map) instead of one on_remove per key. The main
// obligation accepts that; the second obligation demands strict agreement with the client there (open known finding).
use super::*;
use crate::agent_model::downlink::hosted::test_support::run_handler;
use crate::downlink_lifecycle::{OnDownlinkClear, OnDownlinkRemove, OnDownlinkUpdate, OnFailed, OnLinked, OnSynced, OnUnlinked};
use crate::event_handler::{HandlerActionExt, LocalBoxEventHandler, SideEffect};
use std::collections::BTreeMap;
use std::sync::Mutex;
use swimos_utilities::{byte_channel, non_zero_usize};

struct FakeAgent;
type HM = HashMap<i32, i32>;
type M = BTreeMap<i32, i32>;
type Log = Arc<Mutex<Vec<String>>>;
fn sorted(m: &HM) -> M {
    m.iter().map(|(k, v)| (*k, *v)).collect()
}
struct Rec {
    log: Log,
}
impl Rec {
    fn effect<'a>(&'a self, s: String) -> LocalBoxEventHandler<'a, FakeAgent> {
        let log = self.log.clone();
        SideEffect::from(move || {
            log.lock().unwrap().push(s);
        })
        .boxed_local()
    }
}
impl OnLinked<FakeAgent> for Rec {
    type OnLinkedHandler<'a> = LocalBoxEventHandler<'a, FakeAgent> where Self: 'a;
    fn on_linked(&self) -> Self::OnLinkedHandler<'_> {
        self.effect("linked".into())
    }
}
impl OnUnlinked<FakeAgent> for Rec {
    type OnUnlinkedHandler<'a> = LocalBoxEventHandler<'a, FakeAgent> where Self: 'a;
    fn on_unlinked(&self) -> Self::OnUnlinkedHandler<'_> {
        self.effect("unlinked".into())
    }
}
impl OnFailed<FakeAgent> for Rec {
    type OnFailedHandler<'a> = LocalBoxEventHandler<'a, FakeAgent> where Self: 'a;
    fn on_failed(&self) -> Self::OnFailedHandler<'_> {
        self.effect("failed".into())
    }
}
impl OnSynced<HM, FakeAgent> for Rec {
    type OnSyncedHandler<'a> = LocalBoxEventHandler<'a, FakeAgent> where Self: 'a;
    fn on_synced<'a>(&'a self, value: &HM) -> Self::OnSyncedHandler<'a> {
        self.effect(format!("synced{:?}", sorted(value)))
    }
}
impl OnDownlinkUpdate<i32, i32, HM, FakeAgent> for Rec {
    type OnUpdateHandler<'a> = LocalBoxEventHandler<'a, FakeAgent> where Self: 'a;
    fn on_update<'a>(&'a self, key: i32, map: &HM, previous: Option<i32>, new_value: &i32) -> Self::OnUpdateHandler<'a> {
        self.effect(format!("update({key},{:?},{new_value},{:?})", previous, sorted(map)))
    }
}
impl OnDownlinkRemove<i32, i32, HM, FakeAgent> for Rec {
    type OnRemoveHandler<'a> = LocalBoxEventHandler<'a, FakeAgent> where Self: 'a;
    fn on_remove<'a>(&'a self, key: i32, map: &HM, removed: i32) -> Self::OnRemoveHandler<'a> {
        self.effect(format!("remove({key},{removed},{:?})", sorted(map)))
    }
}
impl OnDownlinkClear<HM, FakeAgent> for Rec {
    type OnClearHandler<'a> = LocalBoxEventHandler<'a, FakeAgent> where Self: 'a;
    fn on_clear(&self, map: HM) -> Self::OnClearHandler<'_> {
        self.effect(format!("clear{:?}", sorted(&map)))
    }
}

#[derive(Clone, Copy, Debug)]
enum N {
    Linked,
    Synced,
    Unlinked,
    Update(i32, i32),
    Remove(i32),
    Clear,
    Take(u64),
    Drop(u64),
    // the agent re-establishes the downlink's connection (what it does after a failed write, when the downlink can restart):
    // `connect` is called again with fresh channels and NO notification in between
    Reconnect,
}
fn universe() -> Vec<N> {
    let mut v = vec![N::Linked, N::Synced, N::Unlinked, N::Reconnect, N::Clear, N::Take(0), N::Take(1), N::Take(2), N::Drop(0), N::Drop(1), N::Drop(2)];
    for k in [1, 2, 3] {
        v.push(N::Remove(k));
        for x in [10, 20] {
            v.push(N::Update(k, x));
        }
    }
    v
}
#[derive(Clone, Debug, PartialEq)]
enum MState {
    Unlinked,
    Linked(M),
    Synced(M),
    Stopped,
}

// Ok(None): not a well-behaved sequence; Ok(Some(used_drop_all)): passed
fn run_sequence(seq: &[N], ews: bool, tou: bool, strict: bool) -> Result<Option<bool>, String> {
    let log: Log = Default::default();
    let (_in_tx, in_rx) = byte_channel::byte_channel(non_zero_usize!(64));
    let (out_tx, _out_rx) = byte_channel::byte_channel(non_zero_usize!(64));
    let (_stop_tx, stop_rx) = trigger::trigger();
    let (_op_tx, op_rx) = mpsc::unbounded_channel::<MapOperation<i32, i32>>();
    let agent = FakeAgent;
    let mut dl: HostedMapDownlink<i32, i32, HM, Rec> = HostedMapDownlink {
        address: Address::new(None, Text::new("/node"), Text::new("lane")),
        receiver: None,
        write_stream: Writes::Inactive(op_rx),
        state: Default::default(),
        next: None,
        lifecycle: Rec { log: log.clone() },
        config: MapDownlinkConfig { events_when_not_synced: ews, terminate_on_unlinked: tou },
        dl_state: DlStateTracker::new(Default::default()),
        stop_rx: Some(stop_rx),
    };
    DownlinkChannel::<FakeAgent>::connect(&mut dl, &agent, out_tx, in_rx);
    let mut keep_alive = vec![];
    let mut m = MState::Unlinked;
    let mut expected: Vec<String> = vec![];
    let mut used_drop_all = false;
    for (step, n) in seq.iter().enumerate() {
        let legal = match (n, &m) {
            (N::Reconnect, MState::Stopped) => false,
            (N::Reconnect, _) => !tou,
            (N::Linked, MState::Unlinked) => true,
            (N::Linked, _) => false,
            (_, MState::Linked(_)) => true,
            (N::Synced, MState::Synced(_)) => false,
            (_, MState::Synced(_)) => true,
            _ => false,
        };
        if !legal {
            return Ok(None);
        }
        if matches!(n, N::Reconnect) {
            let (in_tx2, in_rx2) = byte_channel::byte_channel(non_zero_usize!(64));
            let (out_tx2, out_rx2) = byte_channel::byte_channel(non_zero_usize!(64));
            DownlinkChannel::<FakeAgent>::connect(&mut dl, &agent, out_tx2, in_rx2);
            keep_alive.push((in_tx2, out_rx2));
        } else {
        dl.next = Some(Ok(match *n {
            N::Reconnect => unreachable!(),
            N::Linked => DownlinkNotification::Linked,
            N::Synced => DownlinkNotification::Synced,
            N::Unlinked => DownlinkNotification::Unlinked,
            N::Update(key, value) => DownlinkNotification::Event { body: MapMessage::Update { key, value } },
            N::Remove(key) => DownlinkNotification::Event { body: MapMessage::Remove { key } },
            N::Clear => DownlinkNotification::Event { body: MapMessage::Clear },
            N::Take(n) => DownlinkNotification::Event { body: MapMessage::Take(n) },
            N::Drop(n) => DownlinkNotification::Event { body: MapMessage::Drop(n) },
        }));
        if let Some(handler) = DownlinkChannel::<FakeAgent>::next_event(&mut dl, &agent) {
            run_handler(handler, &agent);
        }
        }
        // reference: the fold + the callback trace of the client downlink
        match *n {
            N::Reconnect => {
                // a new link: nothing of the previous one may survive, and nothing is reported
                m = MState::Unlinked;
            }
            N::Linked => {
                expected.push("linked".into());
                m = MState::Linked(M::new());
            }
            N::Synced => {
                if let MState::Linked(map) = m.clone() {
                    expected.push(format!("synced{:?}", map));
                    m = MState::Synced(map);
                }
            }
            N::Unlinked => {
                expected.push("unlinked".into());
                m = if tou { MState::Stopped } else { MState::Unlinked };
            }
            ev => {
                let (map, dispatch) = match &mut m {
                    MState::Linked(map) => (map, ews),
                    MState::Synced(map) => (map, true),
                    _ => unreachable!(),
                };
                match ev {
                    N::Update(k, v) => {
                        let old = map.insert(k, v);
                        if dispatch {
                            expected.push(format!("update({k},{:?},{v},{:?})", old, map));
                        }
                    }
                    N::Remove(k) => {
                        if let Some(old) = map.remove(&k) {
                            if dispatch {
                                expected.push(format!("remove({k},{old},{:?})", map));
                            }
                        }
                    }
                    N::Clear => {
                        let old = std::mem::take(map);
                        if dispatch {
                            expected.push(format!("clear{:?}", old));
                        }
                    }
                    N::Take(cnt) => {
                        let removed: Vec<(i32, i32)> = map.iter().skip(cnt as usize).map(|(k, v)| (*k, *v)).collect();
                        for (k, v) in removed {
                            map.remove(&k);
                            if dispatch {
                                expected.push(format!("remove({k},{v},{:?})", map));
                            }
                        }
                    }
                    N::Drop(cnt) => {
                        if cnt as usize >= map.len() && dispatch && !strict {
                            // the documented deviation of the hosted downlink
                            used_drop_all = true;
                            let old = std::mem::take(map);
                            expected.push(format!("clear{:?}", old));
                        } else {
                            if cnt as usize >= map.len() && dispatch {
                                used_drop_all = true;
                            }
                            let removed: Vec<(i32, i32)> = map.iter().take(cnt as usize).map(|(k, v)| (*k, *v)).collect();
                            for (k, v) in removed {
                                map.remove(&k);
                                if dispatch {
                                    expected.push(format!("remove({k},{v},{:?})", map));
                                }
                            }
                        }
                    }
                    _ => unreachable!(),
                }
            }
        }
        let held: M = dl.state.with(|inner| sorted(&inner.map));
        let got = match dl.dl_state.get() {
            DlState::Unlinked => MState::Unlinked,
            DlState::Linked => MState::Linked(held.clone()),
            DlState::Synced => MState::Synced(held.clone()),
            DlState::Stopped => MState::Stopped,
        };
        if matches!(got, MState::Unlinked | MState::Stopped) && !held.is_empty() {
            return Err(format!("step {step}: the downlink is {:?} but still holds {:?}", got, held));
        }
        if got != m {
            return Err(format!("step {step}: downlink state is {:?}, the notifications received imply {:?}", got, m));
        }
        let got_log = log.lock().unwrap().clone();
        if got_log != expected {
            return Err(format!("step {step}: lifecycle callbacks were {:?}, expected {:?}", got_log, expected));
        }
        if m == MState::Stopped {
            break;
        }
    }
    Ok(Some(used_drop_all))
}

#[test]
fn hosted_map_downlink_contract() {
    let depth: usize = std::env::var("VERIF_BX_DEPTH").ok().and_then(|s| s.parse().ok()).unwrap_or(4);
    let ops = universe();
    let mut evaluations = 0usize;
    let mut nontrivial = 0usize;
    let mut strict_evals = 0usize;
    let mut failure: Option<String> = None;
    let mut strict_failure: Option<String> = None;
    'outer: for (ews, tou) in [(false, false), (false, true), (true, false), (true, true)] {
        let mut idx = vec![0usize; depth];
        for len in 1..=depth {
            idx.iter_mut().for_each(|i| *i = 0);
            loop {
                // (sequences that do not start with Linked are never well-behaved)
                if matches!(ops[idx[0]], N::Linked) {
                    let seq: Vec<N> = idx[..len].iter().map(|i| ops[*i]).collect();
                    evaluations += 1;
                    match run_sequence(&seq, ews, tou, false) {
                        Ok(Some(drop_all)) => {
                            nontrivial += 1;
                            if drop_all && strict_failure.is_none() {
                                strict_evals += 1;
                                if let Err(e) = run_sequence(&seq, ews, tou, true) {
                                    strict_failure = Some(format!("events_when_not_synced={ews} terminate_on_unlinked={tou} {:?} => {}", seq, e));
                                }
                            }
                        }
                        Ok(None) => {}
                        Err(e) => {
                            failure = Some(format!("events_when_not_synced={ews} terminate_on_unlinked={tou} {:?} => {}", seq, e));
                            break 'outer;
                        }
                    }
                }
                let mut k = 0;
                loop {
                    if k == len {
                        break;
                    }
                    idx[k] += 1;
                    if idx[k] < ops.len() {
                        break;
                    }
                    idx[k] = 0;
                    k += 1;
                }
                if k == len {
                    break;
                }
            }
        }
    }
    println!("BX-SAMPLE depth={depth} universe={} notifications over keys {{1,2,3}}; e.g. [Linked, Update(2,10), Update(1,20), Synced, Take(1)]", ops.len());
    let mut failed = false;
    match failure {
        None => println!("BX-OBL hosted_map_downlink::state_is_fold_of_notifications_and_callbacks_match ok evaluations={evaluations} distinct={nontrivial}"),
        Some(w) => {
            println!("BX-FAIL hosted_map_downlink::state_is_fold_of_notifications_and_callbacks_match witness={w}");
            failed = true;
        }
    }
    match strict_failure {
        None => println!("BX-OBL hosted_map_downlink::drop_of_everything_reports_like_the_client ok evaluations={strict_evals} distinct={strict_evals}"),
        Some(w) => {
            println!("BX-FAIL hosted_map_downlink::drop_of_everything_reports_like_the_client witness={w}");
            failed = true;
        }
    }
    if failed {
        panic!("contract violated");
    }
}
