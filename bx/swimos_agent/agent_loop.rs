// BOUNDED contract check of the agent's main loop (server/swimos_agent/src/agent_model/mod.rs: AgentTask::run_agent -- the
// dirty-item tracking, the lending of lane writers to pending writes, and the re-triggering of lane events after a write)
// -- properties C01 (value lanes settle on the last value) and C06 (each state change triggers its handlers exactly once).
// (A 600-line async select loop: outside Verus/Kani.) The REAL run_agent runs as a tokio task against the crate's own test
// agent (agent_model/tests/fake_agent.rs, whose value lane holds one staged value, i.e. the newest); the harness plays the
// runtime: it sends commands and sync requests to the value lane and reads -- or for a while does NOT read -- the lane's
// output, so that the lane-to-runtime channel fills up and writes stay pending.
// Checked on EVERY sequence up to VERIF_BX_DEPTH over {one command, a burst of 450 commands without reading, a sync
// request, drain the output}, each followed by a final drain.
// Contract: the events read from the lane carry strictly increasing values (commands are numbered) and, once the agent is
// quiescent and the output drained, the last one is the last value commanded (C01); every sync request is answered by its
// sync event and synced marker, in request order (C03); the lane's lifecycle event fires exactly once per command and never
// for a sync or a completed write (C06).
use super::*;
use futures::FutureExt;
use swimos_agent_protocol::LaneResponse;

#[derive(Clone, Copy, Debug)]
enum Op {
    Cmd,
    Burst,
    Sync,
    Drain,
}
const BURST: i32 = 450;

async fn settle() {
    for _ in 0..16 {
        tokio::task::yield_now().await;
    }
}

struct Model {
    next: i32,
    last_cmd: i32,
    last_seen: i32,
    syncs_sent: Vec<Uuid>,
    syncs_answered: usize,
    half_sync: Option<Uuid>,
    lane_events: usize,
}

async fn drain(receiver: &mut ValueLaneReceiver, m: &mut Model, step: usize) -> Result<(), String> {
    let mut empty = 0;
    loop {
        match receiver.get_response().now_or_never() {
            Some(resp) => {
                empty = 0;
                match resp {
                    LaneResponse::StandardEvent(body) => {
                        let n: i32 = std::str::from_utf8(body.as_ref()).map_err(|e| e.to_string())?.parse().map_err(|_| "bad integer".to_string())?;
                        if n <= m.last_seen {
                            return Err(format!("step {step}: event {n} was delivered after event {}", m.last_seen));
                        }
                        if n > m.last_cmd {
                            return Err(format!("step {step}: event {n} was never commanded"));
                        }
                        m.last_seen = n;
                    }
                    LaneResponse::SyncEvent(id, _) => {
                        if m.half_sync.is_some() || m.syncs_sent.get(m.syncs_answered) != Some(&id) {
                            return Err(format!("step {step}: unexpected sync event for {id}"));
                        }
                        m.half_sync = Some(id);
                    }
                    LaneResponse::Synced(id) => {
                        if m.half_sync != Some(id) {
                            return Err(format!("step {step}: synced for {id} without its sync event"));
                        }
                        m.half_sync = None;
                        m.syncs_answered += 1;
                    }
                    ow => return Err(format!("step {step}: unexpected response {:?}", ow)),
                }
            }
            _ => {
                empty += 1;
                if empty > 6 {
                    return Ok(());
                }
                settle().await;
            }
        }
    }
}

async fn run_sequence(seq: &[Op]) -> Result<(), String> {
    let context = Box::<TestAgentContext>::default();
    let (task, TestContext { mut test_event_rx, http_request_rx: _http_request_rx, mut lc_event_rx, val_lane_io, map_lane_io: _map_lane_io, cmd_lane_io: _cmd_lane_io, http_lane_tx: _http_lane_tx, .. }) =
        init_agent(context).await;
    let task = tokio::spawn(task);
    let (mut sender, mut receiver) = val_lane_io;
    let mut m = Model { next: 1, last_cmd: 0, last_seen: 0, syncs_sent: vec![], syncs_answered: 0, half_sync: None, lane_events: 0 };
    let mut commands = 0usize;
    let mut all: Vec<Op> = seq.to_vec();
    all.push(Op::Drain);
    for (step, op) in all.iter().enumerate() {
        match op {
            Op::Cmd | Op::Burst => {
                let n = if let Op::Cmd = op { 1 } else { BURST };
                for _ in 0..n {
                    let v = m.next;
                    m.next += 1;
                    sender.command(v).await;
                    m.last_cmd = v;
                    commands += 1;
                    // the agent takes the command (the harness does not read the lane's output meanwhile)
                    match tokio::time::timeout(Duration::from_secs(5), test_event_rx.next()).await {
                        Ok(Some(TestEvent::Value { body })) if body == v => {}
                        ow => return Err(format!("step {step}: the agent did not take command {v}: {:?}", ow)),
                    }
                }
            }
            Op::Sync => {
                let id = Uuid::from_u128(1000 + m.syncs_sent.len() as u128);
                sender.sync(id).await;
                m.syncs_sent.push(id);
                match tokio::time::timeout(Duration::from_secs(5), test_event_rx.next()).await {
                    Ok(Some(TestEvent::Sync { id: got })) if got == id => {}
                    ow => return Err(format!("step {step}: the agent did not take the sync request: {:?}", ow)),
                }
            }
            Op::Drain => {
                settle().await;
                drain(&mut receiver, &mut m, step).await?;
                // quiescent and drained
                if m.last_seen != m.last_cmd {
                    return Err(format!("step {step}: the agent is quiescent and the output drained; the last event was {} but the lane's value is {}", m.last_seen, m.last_cmd));
                }
                if m.syncs_answered != m.syncs_sent.len() || m.half_sync.is_some() {
                    return Err(format!("step {step}: {} sync requests, {} answered", m.syncs_sent.len(), m.syncs_answered));
                }
            }
        }
        settle().await;
        // (tokio's cooperative budget makes a channel read return Pending now and then although items are queued: an empty
        //  poll is retried after yielding before the queue is taken to be empty)
        let mut empty = 0;
        while empty < 4 {
            match lc_event_rx.next().now_or_never() {
                Some(Some(ev)) => {
                    empty = 0;
                    match ev {
                        LifecycleEvent::Init | LifecycleEvent::Start => {}
                        LifecycleEvent::Lane(name) if name == VAL_LANE => m.lane_events += 1,
                        ow => return Err(format!("step {step}: unexpected lifecycle event {:?}", ow)),
                    }
                }
                _ => {
                    empty += 1;
                    tokio::task::yield_now().await;
                }
            }
        }
        if m.lane_events > commands {
            return Err(format!("step {step}: the value lane's lifecycle event fired {} times for {} commands", m.lane_events, commands));
        }
        if task.is_finished() {
            return Err(format!("step {step}: the agent task stopped"));
        }
    }
    if m.lane_events != commands {
        return Err(format!("at the end the value lane's lifecycle event had fired {} times for {} commands", m.lane_events, commands));
    }
    task.abort();
    Ok(())
}

#[test]
fn agent_loop_contract() {
    let depth: usize = std::env::var("VERIF_BX_DEPTH").ok().and_then(|s| s.parse().ok()).unwrap_or(4);
    let ops = [Op::Cmd, Op::Burst, Op::Sync, Op::Drain];
    let rt = tokio::runtime::Builder::new_current_thread().enable_time().build().expect("runtime");
    let mut evaluations = 0usize;
    let mut failure: Option<String> = None;
    let mut idx = vec![0usize; depth];
    'outer: for len in 1..=depth {
        idx.iter_mut().for_each(|i| *i = 0);
        loop {
            let seq: Vec<Op> = idx[..len].iter().map(|i| ops[*i]).collect();
            evaluations += 1;
            if let Err(e) = rt.block_on(run_sequence(&seq)) {
                failure = Some(format!("{:?} => {}", seq, e));
                break 'outer;
            }
            let mut k = 0;
            loop {
                if k == len {
                    break;
                }
                idx[k] += 1;
                if idx[k] < ops.len() {
                    break;
                }
                idx[k] = 0;
                k += 1;
            }
            if k == len {
                break;
            }
        }
    }
    println!("BX-SAMPLE depth={depth} inputs {{command, burst of {BURST} commands without reading, sync request, drain}}; e.g. [Burst, Sync, Cmd, Drain]");
    match failure {
        None => println!("BX-OBL agent_loop::value_lane_settles_syncs_answered_one_lane_event_per_command ok evaluations={evaluations} distinct={evaluations}"),
        Some(w) => {
            println!("BX-FAIL agent_loop::value_lane_settles_syncs_answered_one_lane_event_per_command witness={w}");
            panic!("contract violated");
        }
    }
}
