// BOUNDED contract check of the agent's main loop (server/swimos_agent/src/agent_model/mod.rs: AgentTask::run_agent -- the
// dirty-item tracking, the lending of lane writers to pending writes, and the re-triggering of lane events after a write)
// -- properties C01 (value lanes settle on the last value) and C06 (each state change triggers its handlers exactly once).
// (A 600-line async select loop: outside Verus/Kani.) The REAL run_agent runs as a tokio task against the crate's own test
// agent (agent_model/tests/fake_agent.rs, whose value lane holds one staged value, i.e. the newest); the harness plays the
// runtime: it sends commands and sync requests to the value lane and reads -- or for a while does NOT read -- the lane's
// output, so that the lane-to-runtime channel fills up and writes stay pending.
// Checked on EVERY sequence up to VERIF_BX_DEPTH over {one command, a burst of 450 commands without reading, a sync
// request, drain the outputs, a command-lane command whose handler sends an ad hoc command, a burst of 100 of those}, each
// followed by a final drain.
// Contract: the events read from the lane carry strictly increasing values (commands are numbered) and, once the agent is
// quiescent and the output drained, the last one is the last value commanded (C01); every sync request is answered by its
// sync event and synced marker, in request order (C03); the lane's lifecycle event fires exactly once per command and never
// for a sync or a completed write (C06); every command a handler sends to another agent is forwarded on the agent's command
// channel, however slowly that channel is read (C14).
use super::*;
use futures::FutureExt;
use swimos_agent_protocol::LaneResponse;

#[derive(Clone, Copy, Debug)]
enum Op {
    Cmd,
    Burst,
    Sync,
    Drain,
    // a command to the agent's command lane whose handler sends one command to another agent (ad hoc command)
    AdHoc,
    // 100 of them while nobody reads the agent's outgoing command channel (several times its capacity)
    AdHocBurst,
}
const BURST: i32 = 450;
const ADHOC_BURST: usize = 100;

async fn settle() {
    for _ in 0..16 {
        tokio::task::yield_now().await;
    }
}

struct Model {
    next: i32,
    last_cmd: i32,
    last_seen: i32,
    syncs_sent: Vec<Uuid>,
    syncs_answered: usize,
    half_sync: Option<Uuid>,
    lane_events: usize,
}

async fn drain(receiver: &mut ValueLaneReceiver, m: &mut Model, step: usize) -> Result<(), String> {
    let mut empty = 0;
    loop {
        match receiver.get_response().now_or_never() {
            Some(resp) => {
                empty = 0;
                match resp {
                    LaneResponse::StandardEvent(body) => {
                        let n: i32 = std::str::from_utf8(body.as_ref()).map_err(|e| e.to_string())?.parse().map_err(|_| "bad integer".to_string())?;
                        if n <= m.last_seen {
                            return Err(format!("step {step}: event {n} was delivered after event {}", m.last_seen));
                        }
                        if n > m.last_cmd {
                            return Err(format!("step {step}: event {n} was never commanded"));
                        }
                        m.last_seen = n;
                    }
                    LaneResponse::SyncEvent(id, _) => {
                        if m.half_sync.is_some() || m.syncs_sent.get(m.syncs_answered) != Some(&id) {
                            return Err(format!("step {step}: unexpected sync event for {id}"));
                        }
                        m.half_sync = Some(id);
                    }
                    LaneResponse::Synced(id) => {
                        if m.half_sync != Some(id) {
                            return Err(format!("step {step}: synced for {id} without its sync event"));
                        }
                        m.half_sync = None;
                        m.syncs_answered += 1;
                    }
                    ow => return Err(format!("step {step}: unexpected response {:?}", ow)),
                }
            }
            _ => {
                empty += 1;
                if empty > 6 {
                    return Ok(());
                }
                settle().await;
            }
        }
    }
}

async fn run_sequence(seq: &[Op]) -> Result<(), String> {
    let (cmd_tx, cmd_rx) = oneshot::channel();
    let context = Box::new(TestAgentContext::new(cmd_tx));
    let (task, TestContext { mut test_event_rx, http_request_rx: _http_request_rx, mut lc_event_rx, val_lane_io, map_lane_io: _map_lane_io, cmd_lane_io, http_lane_tx: _http_lane_tx, .. }) =
        init_agent(context).await;
    let task = tokio::spawn(task);
    let (mut sender, mut receiver) = val_lane_io;
    let (mut cmd_sender, _cmd_receiver) = cmd_lane_io;
    let mut out_commands = CommandReceiver::new(
        tokio::time::timeout(Duration::from_secs(5), cmd_rx).await.map_err(|_| "the agent did not open its command channel".to_string())?.map_err(|_| "command channel dropped".to_string())?,
        CommandMessageDecoder::default(),
    );
    let mut adhoc_sent = 0usize;
    let mut adhoc_seen = 0usize;
    let mut next_adhoc = 1i32;
    let mut cmd_lane_events = 0usize;
    let mut cmd_lane_commands = 0usize;
    let mut m = Model { next: 1, last_cmd: 0, last_seen: 0, syncs_sent: vec![], syncs_answered: 0, half_sync: None, lane_events: 0 };
    let mut commands = 0usize;
    let mut all: Vec<Op> = seq.to_vec();
    all.push(Op::Drain);
    for (step, op) in all.iter().enumerate() {
        match op {
            Op::Cmd | Op::Burst => {
                let n = if let Op::Cmd = op { 1 } else { BURST };
                for _ in 0..n {
                    let v = m.next;
                    m.next += 1;
                    sender.command(v).await;
                    m.last_cmd = v;
                    commands += 1;
                    // the agent takes the command (the harness does not read the lane's output meanwhile)
                    match tokio::time::timeout(Duration::from_secs(5), test_event_rx.next()).await {
                        Ok(Some(TestEvent::Value { body })) if body == v => {}
                        ow => return Err(format!("step {step}: the agent did not take command {v}: {:?}", ow)),
                    }
                }
            }
            Op::Sync => {
                let id = Uuid::from_u128(1000 + m.syncs_sent.len() as u128);
                sender.sync(id).await;
                m.syncs_sent.push(id);
                match tokio::time::timeout(Duration::from_secs(5), test_event_rx.next()).await {
                    Ok(Some(TestEvent::Sync { id: got })) if got == id => {}
                    ow => return Err(format!("step {step}: the agent did not take the sync request: {:?}", ow)),
                }
            }
            Op::AdHoc | Op::AdHocBurst => {
                let n = if let Op::AdHoc = op { 1 } else { ADHOC_BURST };
                for _ in 0..n {
                    // values congruent to 1 mod 3 make the lane's handler send one ad hoc command
                    let v = next_adhoc;
                    next_adhoc += 3;
                    cmd_sender.command(v).await;
                    adhoc_sent += 1;
                    cmd_lane_commands += 1;
                    match tokio::time::timeout(Duration::from_secs(5), test_event_rx.next()).await {
                        Ok(Some(TestEvent::Cmd { body })) if body == v => {}
                        ow => return Err(format!("step {step}: the agent did not take command {v} on its command lane: {:?}", ow)),
                    }
                }
            }
            Op::Drain => {
                settle().await;
                // the consumer of the agent's outgoing commands catches up
                let mut empty = 0;
                while empty < 6 {
                    match out_commands.next().now_or_never() {
                        Some(Some(Ok(_))) => {
                            empty = 0;
                            adhoc_seen += 1;
                        }
                        Some(Some(Err(e))) => return Err(format!("step {step}: bad frame on the agent's command channel: {e}")),
                        Some(None) => return Err(format!("step {step}: the agent closed its command channel")),
                        None => {
                            empty += 1;
                            settle().await;
                        }
                    }
                }
                if adhoc_seen != adhoc_sent {
                    return Err(format!("step {step}: the agent is quiescent and its command channel drained; its handlers sent {adhoc_sent} commands to other agents, {adhoc_seen} were forwarded"));
                }
                drain(&mut receiver, &mut m, step).await?;
                // quiescent and drained
                if m.last_seen != m.last_cmd {
                    return Err(format!("step {step}: the agent is quiescent and the output drained; the last event was {} but the lane's value is {}", m.last_seen, m.last_cmd));
                }
                if m.syncs_answered != m.syncs_sent.len() || m.half_sync.is_some() {
                    return Err(format!("step {step}: {} sync requests, {} answered", m.syncs_sent.len(), m.syncs_answered));
                }
            }
        }
        settle().await;
        // (tokio's cooperative budget makes a channel read return Pending now and then although items are queued: an empty
        //  poll is retried after yielding before the queue is taken to be empty)
        let mut empty = 0;
        while empty < 4 {
            match lc_event_rx.next().now_or_never() {
                Some(Some(ev)) => {
                    empty = 0;
                    match ev {
                        LifecycleEvent::Init | LifecycleEvent::Start => {}
                        LifecycleEvent::Lane(name) if name == VAL_LANE => m.lane_events += 1,
                        LifecycleEvent::Lane(name) if name == CMD_LANE => cmd_lane_events += 1,
                        ow => return Err(format!("step {step}: unexpected lifecycle event {:?}", ow)),
                    }
                }
                _ => {
                    empty += 1;
                    tokio::task::yield_now().await;
                }
            }
        }
        if m.lane_events > commands {
            return Err(format!("step {step}: the value lane's lifecycle event fired {} times for {} commands", m.lane_events, commands));
        }
        if task.is_finished() {
            return Err(format!("step {step}: the agent task stopped"));
        }
    }
    if m.lane_events != commands {
        return Err(format!("at the end the value lane's lifecycle event had fired {} times for {} commands", m.lane_events, commands));
    }
    if cmd_lane_events != cmd_lane_commands {
        return Err(format!("at the end the command lane's lifecycle event had fired {cmd_lane_events} times for {cmd_lane_commands} commands"));
    }
    task.abort();
    Ok(())
}

#[test]
fn agent_loop_contract() {
    let depth: usize = std::env::var("VERIF_BX_DEPTH").ok().and_then(|s| s.parse().ok()).unwrap_or(4);
    let ops = [Op::Cmd, Op::Burst, Op::Sync, Op::Drain, Op::AdHoc, Op::AdHocBurst];
    let rt = tokio::runtime::Builder::new_current_thread().enable_time().build().expect("runtime");
    let mut evaluations = 0usize;
    let mut failure: Option<String> = None;
    let mut idx = vec![0usize; depth];
    'outer: for len in 1..=depth {
        idx.iter_mut().for_each(|i| *i = 0);
        loop {
            let seq: Vec<Op> = idx[..len].iter().map(|i| ops[*i]).collect();
            evaluations += 1;
            if let Err(e) = rt.block_on(run_sequence(&seq)) {
                failure = Some(format!("{:?} => {}", seq, e));
                break 'outer;
            }
            let mut k = 0;
            loop {
                if k == len {
                    break;
                }
                idx[k] += 1;
                if idx[k] < ops.len() {
                    break;
                }
                idx[k] = 0;
                k += 1;
            }
            if k == len {
                break;
            }
        }
    }
    println!("BX-SAMPLE depth={depth} inputs {{command, burst of {BURST} commands without reading, sync request, drain, command that sends an ad hoc command, burst of {ADHOC_BURST} of those}}; e.g. [Burst, Sync, AdHocBurst, Drain]");
    match failure {
        None => println!("BX-OBL agent_loop::value_lane_settles_syncs_answered_one_lane_event_per_command ok evaluations={evaluations} distinct={evaluations}"),
        Some(w) => {
            println!("BX-FAIL agent_loop::value_lane_settles_syncs_answered_one_lane_event_per_command witness={w}");
            panic!("contract violated");
        }
    }
}
