// BOUNDED contract check of the agent-hosted value downlink (server/swimos_agent/src/agent_model/downlink/hosted/value/mod.rs:
// HostedValueDownlink::next_event) -- property C08. (Boxed event handlers, RefCell state, atomics: outside Verus/Kani.)
// Each notification is placed in the downlink's `next` slot (exactly what select_next does after decoding a frame), next_event
// is called and the returned handler is run to completion. Checked on EVERY well-behaved notification sequence (linked only
// when unlinked; events, synced and unlinked only while linked; synced only once a value has arrived) up to VERIF_BX_DEPTH
// over values {1, 2}, for the four settings of (events_when_not_synced, terminate_on_unlinked), including relinks on the same
// channel. Contract = the one checked for the stand-alone client downlink (bx value_task): the held value is the last value
// received since it linked; on_event/on_set fire exactly when dispatch is enabled, in order, with the true previous value;
// on_synced fires exactly when the link becomes synced and sees the value of that moment; dl_state follows the link.
use super::*;
use crate::agent_model::downlink::hosted::test_support::run_handler;
use crate::downlink_lifecycle::{OnDownlinkEvent, OnDownlinkSet, OnFailed, OnLinked, OnSynced, OnUnlinked};
use crate::event_handler::{HandlerActionExt, LocalBoxEventHandler, SideEffect};
use std::cell::RefCell;
use std::sync::Mutex;
use swimos_utilities::{byte_channel, non_zero_usize};

struct FakeAgent;
type Log = Arc<Mutex<Vec<String>>>;
struct Rec {
    log: Log,
}
impl Rec {
    fn effect<'a>(&'a self, s: String) -> LocalBoxEventHandler<'a, FakeAgent> {
        let log = self.log.clone();
        SideEffect::from(move || {
            log.lock().unwrap().push(s);
        })
        .boxed_local()
    }
}
impl OnLinked<FakeAgent> for Rec {
    type OnLinkedHandler<'a> = LocalBoxEventHandler<'a, FakeAgent> where Self: 'a;
    fn on_linked(&self) -> Self::OnLinkedHandler<'_> {
        self.effect("linked".into())
    }
}
impl OnUnlinked<FakeAgent> for Rec {
    type OnUnlinkedHandler<'a> = LocalBoxEventHandler<'a, FakeAgent> where Self: 'a;
    fn on_unlinked(&self) -> Self::OnUnlinkedHandler<'_> {
        self.effect("unlinked".into())
    }
}
impl OnFailed<FakeAgent> for Rec {
    type OnFailedHandler<'a> = LocalBoxEventHandler<'a, FakeAgent> where Self: 'a;
    fn on_failed(&self) -> Self::OnFailedHandler<'_> {
        self.effect("failed".into())
    }
}
impl OnSynced<i32, FakeAgent> for Rec {
    type OnSyncedHandler<'a> = LocalBoxEventHandler<'a, FakeAgent> where Self: 'a;
    fn on_synced<'a>(&'a self, value: &i32) -> Self::OnSyncedHandler<'a> {
        self.effect(format!("synced({value})"))
    }
}
impl OnDownlinkEvent<i32, FakeAgent> for Rec {
    type OnEventHandler<'a> = LocalBoxEventHandler<'a, FakeAgent> where Self: 'a;
    fn on_event<'a>(&'a self, value: &i32) -> Self::OnEventHandler<'a> {
        self.effect(format!("event({value})"))
    }
}
impl OnDownlinkSet<i32, FakeAgent> for Rec {
    type OnSetHandler<'a> = LocalBoxEventHandler<'a, FakeAgent> where Self: 'a;
    fn on_set<'a>(&'a self, previous: Option<i32>, new_value: &i32) -> Self::OnSetHandler<'a> {
        self.effect(format!("set({:?},{new_value})", previous))
    }
}

#[derive(Clone, Copy, Debug)]
enum N {
    Linked,
    Synced,
    Unlinked,
    Event(i32),
    // the agent re-establishes the connection (after a failed write): `connect` again with fresh channels, no notification
    Reconnect,
}
#[derive(Clone, Debug, PartialEq)]
enum MState {
    Unlinked,
    Linked(Option<i32>),
    Synced(i32),
    Stopped,
}

fn run_sequence(seq: &[N], ews: bool, tou: bool) -> Result<bool, String> {
    let log: Log = Default::default();
    let (_in_tx, in_rx) = byte_channel::byte_channel(non_zero_usize!(64));
    let (out_tx, _out_rx) = byte_channel::byte_channel(non_zero_usize!(64));
    let (_stop_tx, stop_rx) = swimos_utilities::trigger::trigger();
    let (_write_tx, write_rx) = circular_buffer::channel::<i32>(non_zero_usize!(8));
    let agent = FakeAgent;
    let mut dl: HostedValueDownlink<i32, Rec, RefCell<Option<i32>>> = HostedValueDownlink {
        address: Address::new(None, Text::new("/node"), Text::new("lane")),
        receiver: None,
        write_stream: Writes::Inactive(write_rx),
        state: Default::default(),
        next: None,
        lifecycle: Rec { log: log.clone() },
        config: SimpleDownlinkConfig { events_when_not_synced: ews, terminate_on_unlinked: tou },
        dl_state: DlStateTracker::new(Default::default()),
        stop_rx: Some(stop_rx),
    };
    DownlinkChannel::<FakeAgent>::connect(&mut dl, &agent, out_tx, in_rx);
    let mut keep_alive = vec![];
    let mut m = MState::Unlinked;
    let mut expected: Vec<String> = vec![];
    for (step, n) in seq.iter().enumerate() {
        // only what a well-behaved link can produce
        let legal = match (n, &m) {
            (N::Reconnect, MState::Stopped) => false,
            (N::Reconnect, _) => !tou,
            (N::Linked, MState::Unlinked) => true,
            (N::Event(_), MState::Linked(_)) | (N::Event(_), MState::Synced(_)) => true,
            (N::Synced, MState::Linked(Some(_))) => true,
            (N::Unlinked, MState::Linked(_)) | (N::Unlinked, MState::Synced(_)) => true,
            _ => false,
        };
        if !legal {
            return Ok(false);
        }
        if matches!(n, N::Reconnect) {
            let (in_tx2, in_rx2) = byte_channel::byte_channel(non_zero_usize!(64));
            let (out_tx2, out_rx2) = byte_channel::byte_channel(non_zero_usize!(64));
            DownlinkChannel::<FakeAgent>::connect(&mut dl, &agent, out_tx2, in_rx2);
            keep_alive.push((in_tx2, out_rx2));
        } else {
            dl.next = Some(Ok(match *n {
                N::Linked => DownlinkNotification::Linked,
                N::Synced => DownlinkNotification::Synced,
                N::Unlinked => DownlinkNotification::Unlinked,
                N::Event(v) => DownlinkNotification::Event { body: v },
                N::Reconnect => unreachable!(),
            }));
            if let Some(handler) = DownlinkChannel::<FakeAgent>::next_event(&mut dl, &agent) {
                run_handler(handler, &agent);
            }
        }
        match *n {
            N::Reconnect => {
                // a new link: nothing of the previous one may survive, and nothing is reported
                m = MState::Unlinked;
            }
            N::Linked => {
                expected.push("linked".into());
                m = MState::Linked(None);
            }
            N::Synced => {
                if let MState::Linked(Some(v)) = m {
                    expected.push(format!("synced({v})"));
                    m = MState::Synced(v);
                }
            }
            N::Unlinked => {
                expected.push("unlinked".into());
                m = if tou { MState::Stopped } else { MState::Unlinked };
            }
            N::Event(v) => match m.clone() {
                MState::Linked(prev) => {
                    if ews {
                        expected.push(format!("event({v})"));
                        expected.push(format!("set({:?},{v})", prev));
                    }
                    m = MState::Linked(Some(v));
                }
                MState::Synced(prev) => {
                    expected.push(format!("event({v})"));
                    expected.push(format!("set({:?},{v})", Some(prev)));
                    m = MState::Synced(v);
                }
                _ => {}
            },
        }
        let held = dl.state.with(|v| v.copied());
        let got = match dl.dl_state.get() {
            DlState::Unlinked => MState::Unlinked,
            DlState::Linked => MState::Linked(held),
            DlState::Synced => match held {
                Some(v) => MState::Synced(v),
                None => return Err(format!("step {step}: synced without a value")),
            },
            DlState::Stopped => MState::Stopped,
        };
        if matches!(got, MState::Unlinked | MState::Stopped) && held.is_some() {
            return Err(format!("step {step}: the downlink is {:?} but still holds {:?}", got, held));
        }
        if got != m {
            return Err(format!("step {step}: downlink state is {:?}, the notifications received imply {:?}", got, m));
        }
        let got_log = log.lock().unwrap().clone();
        if got_log != expected {
            return Err(format!("step {step}: lifecycle callbacks were {:?}, expected {:?}", got_log, expected));
        }
        if m == MState::Stopped {
            break;
        }
    }
    Ok(true)
}

#[test]
fn hosted_value_downlink_contract() {
    let depth: usize = std::env::var("VERIF_BX_DEPTH").ok().and_then(|s| s.parse().ok()).unwrap_or(7);
    let ops = [N::Linked, N::Synced, N::Unlinked, N::Event(1), N::Event(2), N::Reconnect];
    let mut evaluations = 0usize;
    let mut nontrivial = 0usize;
    let mut failure: Option<String> = None;
    'outer: for (ews, tou) in [(false, false), (false, true), (true, false), (true, true)] {
        let mut idx = vec![0usize; depth];
        for len in 1..=depth {
            idx.iter_mut().for_each(|i| *i = 0);
            loop {
                let seq: Vec<N> = idx[..len].iter().map(|i| ops[*i]).collect();
                evaluations += 1;
                match run_sequence(&seq, ews, tou) {
                    Ok(true) => nontrivial += 1,
                    Ok(false) => {}
                    Err(e) => {
                        failure = Some(format!("events_when_not_synced={ews} terminate_on_unlinked={tou} {:?} => {}", seq, e));
                        break 'outer;
                    }
                }
                let mut k = 0;
                loop {
                    if k == len {
                        break;
                    }
                    idx[k] += 1;
                    if idx[k] < ops.len() {
                        break;
                    }
                    idx[k] = 0;
                    k += 1;
                }
                if k == len {
                    break;
                }
            }
        }
    }
    println!("BX-SAMPLE depth={depth} notifications {{linked, synced, unlinked, event 1, event 2}}; e.g. [Linked, Event(1), Synced, Unlinked, Linked, Event(2)]");
    match failure {
        None => println!("BX-OBL hosted_value_downlink::state_is_last_value_and_callbacks_match ok evaluations={evaluations} distinct={nontrivial}"),
        Some(w) => {
            println!("BX-FAIL hosted_value_downlink::state_is_last_value_and_callbacks_match witness={w}");
            panic!("contract violated");
        }
    }
}
