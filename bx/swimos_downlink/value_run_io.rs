// BOUNDED contract check of the stand-alone client value downlink's IO loop (swimos_downlink/src/task/value.rs: run_io, both
// its read-write and its read-only mode, and on_read through it) -- property C08. (An async loop racing a command stream
// against the notification stream: outside Verus/Kani; on_read alone is the bx component value_task.)
// The real `run_io` runs as a tokio task; the harness plays the runtime (sending encoded notifications linked / synced /
// unlinked / event v through a byte channel) and the user of the downlink (setting values through the handle, or dropping the
// handle, which puts the loop into read-only mode). One input at a time.
// EVERY well-behaved sequence up to VERIF_BX_DEPTH, for the four settings of (events_when_not_synced, terminate_on_unlinked).
// Contract: the callback trace is the one the notifications imply (as for value_task) in BOTH modes; the task ends exactly when
// the link is unlinked and terminate_on_unlinked is set; every value set through the handle is sent to the lane, in order.
use super::*;
use crate::model::lifecycle::{OnEvent, OnLinked, OnSet, OnSynced, OnUnlinked};
use futures::future::{ready, Ready};
use futures::FutureExt;
use std::sync::{Arc, Mutex};
use swimos_agent_protocol::encoding::downlink::{DownlinkNotificationEncoder, DownlinkOperationDecoder};
use swimos_utilities::{byte_channel::byte_channel, non_zero_usize};

type Log = Arc<Mutex<Vec<String>>>;
struct Rec {
    log: Log,
}
impl Rec {
    fn push(&self, s: String) {
        self.log.lock().unwrap().push(s);
    }
}
impl OnLinked for Rec {
    type OnLinkedFut<'a> = Ready<()> where Self: 'a;
    fn on_linked(&mut self) -> Self::OnLinkedFut<'_> {
        self.push("linked".into());
        ready(())
    }
}
impl OnUnlinked for Rec {
    type OnUnlinkedFut<'a> = Ready<()> where Self: 'a;
    fn on_unlinked(&mut self) -> Self::OnUnlinkedFut<'_> {
        self.push("unlinked".into());
        ready(())
    }
}
impl OnSynced<i32> for Rec {
    type OnSyncedFut<'a> = Ready<()> where Self: 'a;
    fn on_synced<'a>(&'a mut self, value: &'a i32) -> Self::OnSyncedFut<'a> {
        self.push(format!("synced({value})"));
        ready(())
    }
}
impl OnEvent<i32> for Rec {
    type OnEventFut<'a> = Ready<()> where Self: 'a;
    fn on_event<'a>(&'a mut self, value: &'a i32) -> Self::OnEventFut<'a> {
        self.push(format!("event({value})"));
        ready(())
    }
}
impl OnSet<i32> for Rec {
    type OnSetFut<'a> = Ready<()> where Self: 'a;
    fn on_set<'a>(&'a mut self, existing: Option<&'a i32>, new_value: &'a i32) -> Self::OnSetFut<'a> {
        self.push(format!("set({:?},{new_value})", existing));
        ready(())
    }
}

#[derive(Clone, Copy, Debug)]
enum Op {
    Linked,
    Synced,
    Unlinked,
    Event(i32),
    Set,
    DropHandle,
}
#[derive(Clone, Debug, PartialEq)]
enum MState {
    Unlinked,
    Linked(Option<i32>),
    Synced(i32),
}
async fn settle() {
    for _ in 0..24 {
        tokio::task::yield_now().await;
    }
}

async fn run_sequence(seq: &[Op], ews: bool, tou: bool) -> Result<bool, String> {
    let log: Log = Default::default();
    let (in_tx, in_rx) = byte_channel(non_zero_usize!(4096));
    let (out_tx, out_rx) = byte_channel(non_zero_usize!(4096));
    let mut remote = FramedWrite::new(in_tx, DownlinkNotificationEncoder);
    let mut lane = FramedRead::new(out_rx, DownlinkOperationDecoder::default());
    let (handle_tx, handle_rx) = mpsc::channel::<ValueDownlinkSet<i32>>(8);
    let mut handle = Some(handle_tx);
    let config = DownlinkConfig { events_when_not_synced: ews, terminate_on_unlinked: tou, ..Default::default() };
    let framed = FramedWrite::new(out_tx, DownlinkOperationEncoder::default());
    let task = tokio::spawn(run_io(config, in_rx, Rec { log: log.clone() }, handle_rx, framed));
    let mut m = MState::Unlinked;
    let mut expected: Vec<String> = vec![];
    let mut sets: Vec<i32> = vec![];
    let mut sent: Vec<i32> = vec![];
    let mut next_set = 100;
    let mut ended = false;
    for (step, op) in seq.iter().enumerate() {
        let legal = match (op, &m) {
            (Op::Linked, MState::Unlinked) => true,
            (Op::Linked, _) => false,
            (Op::Event(_), MState::Linked(_)) | (Op::Event(_), MState::Synced(_)) => true,
            (Op::Synced, MState::Linked(Some(_))) => true,
            (Op::Unlinked, MState::Linked(_)) | (Op::Unlinked, MState::Synced(_)) => true,
            (Op::Set, _) => handle.is_some(),
            (Op::DropHandle, _) => handle.is_some(),
            _ => false,
        };
        if !legal || ended {
            task.abort();
            return Ok(false);
        }
        match *op {
            Op::Linked => {
                remote.send(DownlinkNotification::<&[u8]>::Linked).await.map_err(|e| e.to_string())?;
                expected.push("linked".into());
                m = MState::Linked(None);
            }
            Op::Synced => {
                remote.send(DownlinkNotification::<&[u8]>::Synced).await.map_err(|e| e.to_string())?;
                if let MState::Linked(Some(v)) = m {
                    expected.push(format!("synced({v})"));
                    m = MState::Synced(v);
                }
            }
            Op::Unlinked => {
                remote.send(DownlinkNotification::<&[u8]>::Unlinked).await.map_err(|e| e.to_string())?;
                expected.push("unlinked".into());
                m = MState::Unlinked;
                if tou {
                    ended = true;
                }
            }
            Op::Event(v) => {
                let body = format!("{v}");
                remote.send(DownlinkNotification::Event { body: body.as_bytes() }).await.map_err(|e| e.to_string())?;
                match m.clone() {
                    MState::Linked(prev) => {
                        if ews {
                            expected.push(format!("event({v})"));
                            expected.push(format!("set({:?},{v})", prev));
                        }
                        m = MState::Linked(Some(v));
                    }
                    MState::Synced(prev) => {
                        expected.push(format!("event({v})"));
                        expected.push(format!("set({:?},{v})", Some(prev)));
                        m = MState::Synced(v);
                    }
                    _ => {}
                }
            }
            Op::Set => {
                let v = next_set;
                next_set += 1;
                handle.as_ref().unwrap().send(ValueDownlinkSet { to: v }).await.map_err(|_| format!("step {step}: the downlink no longer accepts values"))?;
                sets.push(v);
            }
            Op::DropHandle => {
                handle = None;
            }
        }
        settle().await;
        // what reached the lane
        let mut empty = 0;
        while empty < 3 {
            match lane.next().now_or_never() {
                Some(Some(Ok(DownlinkOperation { body }))) => {
                    empty = 0;
                    let n: i32 = std::str::from_utf8(body.as_ref()).map_err(|e| e.to_string())?.parse().map_err(|_| "bad body".to_string())?;
                    sent.push(n);
                }
                Some(Some(Err(e))) => return Err(format!("step {step}: bad frame to the lane: {e}")),
                Some(None) => break,
                None => {
                    empty += 1;
                    tokio::task::yield_now().await;
                }
            }
        }
        let got = log.lock().unwrap().clone();
        if got != expected {
            return Err(format!("step {step}: lifecycle callbacks were {:?}, expected {:?}", got, expected));
        }
        if sent != sets {
            return Err(format!("step {step}: values set through the handle {:?}, values sent to the lane {:?}", sets, sent));
        }
        if task.is_finished() != ended {
            return Err(format!("step {step}: the downlink task has {}stopped; expected it to {}", if task.is_finished() { "" } else { "not " }, if ended { "stop (unlinked, terminate_on_unlinked)" } else { "keep running" }));
        }
    }
    task.abort();
    Ok(true)
}

#[test]
fn value_run_io_contract() {
    let depth: usize = std::env::var("VERIF_BX_DEPTH").ok().and_then(|s| s.parse().ok()).unwrap_or(6);
    let ops = [Op::Linked, Op::Synced, Op::Unlinked, Op::Event(1), Op::Event(2), Op::Set, Op::DropHandle];
    let rt = tokio::runtime::Builder::new_current_thread().enable_time().build().expect("runtime");
    let mut evaluations = 0usize;
    let mut nontrivial = 0usize;
    let mut failure: Option<String> = None;
    'outer: for (ews, tou) in [(false, true), (true, false), (false, false), (true, true)] {
        let mut idx = vec![0usize; depth];
        for len in 1..=depth {
            idx.iter_mut().for_each(|i| *i = 0);
            loop {
                let seq: Vec<Op> = idx[..len].iter().map(|i| ops[*i]).collect();
                evaluations += 1;
                match rt.block_on(run_sequence(&seq, ews, tou)) {
                    Ok(true) => nontrivial += 1,
                    Ok(false) => {}
                    Err(e) => {
                        failure = Some(format!("events_when_not_synced={ews} terminate_on_unlinked={tou} {:?} => {}", seq, e));
                        break 'outer;
                    }
                }
                let mut k = 0;
                loop {
                    if k == len {
                        break;
                    }
                    idx[k] += 1;
                    if idx[k] < ops.len() {
                        break;
                    }
                    idx[k] = 0;
                    k += 1;
                }
                if k == len {
                    break;
                }
            }
        }
    }
    println!("BX-SAMPLE depth={depth} inputs {{linked, synced, unlinked, event 1, event 2, set through the handle, drop the handle}}; e.g. [DropHandle, Linked, Event(1), Synced, Unlinked]");
    match failure {
        None => println!("BX-OBL value_run_io::callbacks_termination_and_writes_in_both_modes ok evaluations={evaluations} distinct={nontrivial}"),
        Some(w) => {
            println!("BX-FAIL value_run_io::callbacks_termination_and_writes_in_both_modes witness={w}");
            panic!("contract violated");
        }
    }
}
