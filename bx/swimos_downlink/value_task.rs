// BOUNDED contract check of the stand-alone client value downlink (swimos_downlink/src/task/value.rs: on_read) -- property C08.
// (GAT lifecycle futures: outside the installed Verus.) Checked on EVERY well-behaved notification sequence up to
// VERIF_BX_DEPTH over values {1, 2}, for both settings of events_when_not_synced.
// Contract: the downlink's value is always the last value received since it linked -- whether or not it is synced and whether
// or not events before sync are enabled; on_event/on_set fire exactly when dispatch is enabled, in order, with the true previous
// value; on_synced fires exactly when the link becomes synced and sees the value of that moment.
use super::*;
use crate::model::lifecycle::{OnEvent, OnLinked, OnSet, OnSynced, OnUnlinked};
use futures::future::{ready, Ready};

#[derive(Default)]
struct Rec {
    log: Vec<String>,
}
impl OnLinked for Rec {
    type OnLinkedFut<'a> = Ready<()> where Self: 'a;
    fn on_linked(&mut self) -> Self::OnLinkedFut<'_> {
        self.log.push("linked".into());
        ready(())
    }
}
impl OnUnlinked for Rec {
    type OnUnlinkedFut<'a> = Ready<()> where Self: 'a;
    fn on_unlinked(&mut self) -> Self::OnUnlinkedFut<'_> {
        self.log.push("unlinked".into());
        ready(())
    }
}
impl OnSynced<i32> for Rec {
    type OnSyncedFut<'a> = Ready<()> where Self: 'a;
    fn on_synced<'a>(&'a mut self, value: &'a i32) -> Self::OnSyncedFut<'a> {
        self.log.push(format!("synced({value})"));
        ready(())
    }
}
impl OnEvent<i32> for Rec {
    type OnEventFut<'a> = Ready<()> where Self: 'a;
    fn on_event<'a>(&'a mut self, value: &'a i32) -> Self::OnEventFut<'a> {
        self.log.push(format!("event({value})"));
        ready(())
    }
}
impl OnSet<i32> for Rec {
    type OnSetFut<'a> = Ready<()> where Self: 'a;
    fn on_set<'a>(&'a mut self, existing: Option<&'a i32>, new_value: &'a i32) -> Self::OnSetFut<'a> {
        self.log.push(format!("set({:?},{new_value})", existing));
        ready(())
    }
}

#[derive(Clone, Copy, Debug)]
enum N {
    Linked,
    Synced,
    Unlinked,
    Event(i32),
}
#[derive(Clone, Debug, PartialEq)]
enum MState {
    Unlinked,
    Linked(Option<i32>),
    Synced(i32),
}
fn view(s: &State<i32>) -> MState {
    match s {
        State::Unlinked => MState::Unlinked,
        State::Linked(v) => MState::Linked(*v),
        State::Synced(v) => MState::Synced(*v),
    }
}

fn run_sequence(seq: &[N], ews: bool) -> Result<bool, String> {
    let mut lc = Rec::default();
    let mut state: State<i32> = State::Unlinked;
    let mut m = MState::Unlinked;
    let mut log: Vec<String> = vec![];
    for (step, n) in seq.iter().enumerate() {
        // a well-behaved link sends `synced` only after the value (skip other sequences)
        if let (N::Synced, false) = (n, matches!(m, MState::Linked(Some(_)))) {
            return Ok(false);
        }
        let notification = match *n {
            N::Linked => DownlinkNotification::Linked,
            N::Synced => DownlinkNotification::Synced,
            N::Unlinked => DownlinkNotification::Unlinked,
            N::Event(v) => DownlinkNotification::Event { body: v },
        };
        state = match futures::executor::block_on(on_read(state, &mut lc, notification, ews, false)) {
            Ok(Some(s)) => s,
            Ok(None) => return Err(format!("step {step}: terminated although terminate_on_unlinked is off")),
            Err(e) => return Err(format!("step {step}: failed: {e}")),
        };
        match *n {
            N::Linked => {
                if m == MState::Unlinked {
                    log.push("linked".into());
                    m = MState::Linked(None);
                }
            }
            N::Synced => {
                if let MState::Linked(Some(v)) = m {
                    log.push(format!("synced({v})"));
                    m = MState::Synced(v);
                }
            }
            N::Unlinked => {
                log.push("unlinked".into());
                m = MState::Unlinked;
            }
            N::Event(v) => match m.clone() {
                MState::Unlinked => {}
                MState::Linked(prev) => {
                    if ews {
                        log.push(format!("event({v})"));
                        log.push(format!("set({:?},{v})", prev));
                    }
                    m = MState::Linked(Some(v));
                }
                MState::Synced(prev) => {
                    log.push(format!("event({v})"));
                    log.push(format!("set({:?},{v})", Some(prev)));
                    m = MState::Synced(v);
                }
            },
        }
        if view(&state) != m {
            return Err(format!("step {step}: downlink state is {:?}, the notifications received imply {:?}", view(&state), m));
        }
        if lc.log != log {
            return Err(format!("step {step}: lifecycle callbacks were {:?}, expected {:?}", lc.log, log));
        }
    }
    Ok(true)
}

#[test]
fn value_downlink_contract() {
    let depth: usize = std::env::var("VERIF_BX_DEPTH").ok().and_then(|s| s.parse().ok()).unwrap_or(6);
    let ops = [N::Linked, N::Synced, N::Unlinked, N::Event(1), N::Event(2)];
    let mut evaluations = 0usize;
    let mut nontrivial = 0usize;
    let mut failure: Option<String> = None;
    'outer: for ews in [false, true] {
        let mut idx = vec![0usize; depth];
        for len in 1..=depth {
            idx.iter_mut().for_each(|i| *i = 0);
            loop {
                let seq: Vec<N> = idx[..len].iter().map(|i| ops[*i]).collect();
                evaluations += 1;
                match run_sequence(&seq, ews) {
                    Ok(true) => nontrivial += 1,
                    Ok(false) => {}
                    Err(e) => {
                        failure = Some(format!("events_when_not_synced={ews} {:?} => {}", seq, e));
                        break 'outer;
                    }
                }
                let mut k = 0;
                loop {
                    if k == len {
                        break;
                    }
                    idx[k] += 1;
                    if idx[k] < ops.len() {
                        break;
                    }
                    idx[k] = 0;
                    k += 1;
                }
                if k == len {
                    break;
                }
            }
        }
    }
    println!("BX-SAMPLE depth={depth} notifications {{linked, synced, unlinked, event 1, event 2}}; e.g. [Linked, Event(1), Synced, Event(2), Unlinked]");
    match failure {
        None => println!("BX-OBL value_downlink::state_is_last_value_and_callbacks_match ok evaluations={evaluations} distinct={nontrivial}"),
        Some(w) => {
            println!("BX-FAIL value_downlink::state_is_last_value_and_callbacks_match witness={w}");
            panic!("contract violated");
        }
    }
}
