// BOUNDED contract check of the stand-alone client map downlink (swimos_downlink/src/task/map.rs: on_read / on_event)
// -- property C08. `on_event` drains a BTreeMap with `into_iter().take(n)` inside `for` loops and awaits lifecycle
// futures behind GAT-typed traits: outside what the installed Verus accepts; so the contract is checked natively on EVERY
// notification sequence up to VERIF_BX_DEPTH over keys {1,2}, values {10,20}, take/drop counts {0,1}, for both values of
// `events_when_not_synced`.
// Contract (from the property): after every notification the downlink state equals the fold of the notifications received
// since it linked -- whether or not it is synced and whether or not events before sync are enabled; lifecycle callbacks fire
// exactly when dispatch is enabled, in order, with the removed/old/new values and the map as it is at that moment; on_synced
// sees the state of that moment.
use super::*;
use crate::model::lifecycle::VerifOnRemove as OnRemove;   // (the trait is not re-exported; alias added in the scratch copy)
use crate::model::lifecycle::{OnClear, OnLinked, OnSynced, OnUnlinked, OnUpdate};
use futures::future::{ready, Ready};

type M = BTreeMap<i32, i32>;

#[derive(Default)]
struct Rec {
    log: Vec<String>,
}
impl OnLinked for Rec {
    type OnLinkedFut<'a> = Ready<()> where Self: 'a;
    fn on_linked(&mut self) -> Self::OnLinkedFut<'_> {
        self.log.push("linked".into());
        ready(())
    }
}
impl OnUnlinked for Rec {
    type OnUnlinkedFut<'a> = Ready<()> where Self: 'a;
    fn on_unlinked(&mut self) -> Self::OnUnlinkedFut<'_> {
        self.log.push("unlinked".into());
        ready(())
    }
}
impl OnSynced<M> for Rec {
    type OnSyncedFut<'a> = Ready<()> where Self: 'a, M: 'a;
    fn on_synced<'a>(&'a mut self, value: &'a M) -> Self::OnSyncedFut<'a> {
        self.log.push(format!("synced{:?}", value));
        ready(())
    }
}
impl OnUpdate<i32, i32> for Rec {
    type OnUpdateFut<'a> = Ready<()> where Self: 'a;
    fn on_update<'a>(&'a mut self, key: i32, map: &'a M, previous: Option<i32>, new_value: &'a i32) -> Self::OnUpdateFut<'a> {
        self.log.push(format!("update({key},{:?},{new_value},{:?})", previous, map));
        ready(())
    }
}
impl OnRemove<i32, i32> for Rec {
    type OnRemoveFut<'a> = Ready<()> where Self: 'a;
    fn on_remove<'a>(&'a mut self, key: i32, map: &'a M, removed: i32) -> Self::OnRemoveFut<'a> {
        self.log.push(format!("remove({key},{removed},{:?})", map));
        ready(())
    }
}
impl OnClear<i32, i32> for Rec {
    type OnClearFut<'a> = Ready<()> where Self: 'a;
    fn on_clear<'a>(&'a mut self, map: M) -> Self::OnClearFut<'a>
    where
        i32: 'a,
    {
        self.log.push(format!("clear{:?}", map));
        ready(())
    }
}

#[derive(Clone, Copy, Debug)]
enum N {
    Linked,
    Synced,
    Unlinked,
    Update(i32, i32),
    Remove(i32),
    Clear,
    Take(u64),
    Drop(u64),
}
fn universe() -> Vec<N> {
    let mut v = vec![N::Linked, N::Synced, N::Unlinked, N::Clear, N::Take(0), N::Take(1), N::Drop(0), N::Drop(1)];
    for k in [1, 2] {
        v.push(N::Remove(k));
        for x in [10, 20] {
            v.push(N::Update(k, x));
        }
    }
    v
}
fn to_notification(n: N) -> DownlinkNotification<MapMessage<i32, i32>> {
    match n {
        N::Linked => DownlinkNotification::Linked,
        N::Synced => DownlinkNotification::Synced,
        N::Unlinked => DownlinkNotification::Unlinked,
        N::Update(key, value) => DownlinkNotification::Event { body: MapMessage::Update { key, value } },
        N::Remove(key) => DownlinkNotification::Event { body: MapMessage::Remove { key } },
        N::Clear => DownlinkNotification::Event { body: MapMessage::Clear },
        N::Take(n) => DownlinkNotification::Event { body: MapMessage::Take(n) },
        N::Drop(n) => DownlinkNotification::Event { body: MapMessage::Drop(n) },
    }
}

#[derive(Clone, Debug, PartialEq)]
enum MState {
    Unlinked,
    Linked(M),
    Synced(M),
}
// reference: fold of the notifications + expected callback trace
fn model_step(st: &mut MState, n: N, events_when_not_synced: bool, log: &mut Vec<String>) {
    match n {
        N::Linked => {
            if *st == MState::Unlinked {
                log.push("linked".into());
                *st = MState::Linked(M::new());
            }
        }
        N::Synced => {
            if let MState::Linked(m) = st.clone() {
                log.push(format!("synced{:?}", m));
                *st = MState::Synced(m);
            }
        }
        N::Unlinked => {
            log.push("unlinked".into());
            *st = MState::Unlinked;
        }
        ev => {
            let (map, dispatch) = match st {
                MState::Unlinked => return,
                MState::Linked(m) => (m, events_when_not_synced),
                MState::Synced(m) => (m, true),
            };
            match ev {
                N::Update(k, v) => {
                    let old = map.insert(k, v);
                    if dispatch {
                        log.push(format!("update({k},{:?},{v},{:?})", old, map));
                    }
                }
                N::Remove(k) => {
                    if let Some(old) = map.remove(&k) {
                        if dispatch {
                            log.push(format!("remove({k},{old},{:?})", map));
                        }
                    }
                }
                N::Clear => {
                    let old = std::mem::take(map);
                    if dispatch {
                        log.push(format!("clear{:?}", old));
                    }
                }
                N::Take(n) => {
                    let removed: Vec<(i32, i32)> = map.iter().skip(n as usize).map(|(k, v)| (*k, *v)).collect();
                    for (k, v) in removed {
                        map.remove(&k);
                        if dispatch {
                            // the map handed to on_remove is the downlink's map at that moment (the key just removed is
                            // gone, everything not yet removed is still there) -- as the agent-hosted downlink does
                            log.push(format!("remove({k},{v},{:?})", map));
                        }
                    }
                }
                N::Drop(n) => {
                    let removed: Vec<(i32, i32)> = map.iter().take(n as usize).map(|(k, v)| (*k, *v)).collect();
                    for (k, v) in removed {
                        map.remove(&k);
                        if dispatch {
                            // the map handed to on_remove is the downlink's map at that moment (the key just removed is
                            // gone, everything not yet removed is still there) -- as the agent-hosted downlink does
                            log.push(format!("remove({k},{v},{:?})", map));
                        }
                    }
                }
                _ => unreachable!(),
            }
        }
    }
}
fn view(s: &State<i32, i32>) -> MState {
    match s {
        State::Unlinked => MState::Unlinked,
        State::Linked(m) => MState::Linked(m.clone()),
        State::Synced(m) => MState::Synced(m.clone()),
    }
}

fn run_sequence(seq: &[N], ews: bool) -> Result<(), String> {
    let config = DownlinkConfig { events_when_not_synced: ews, terminate_on_unlinked: false, ..Default::default() };
    let mut lc = Rec::default();
    let mut state: State<i32, i32> = State::Unlinked;
    let mut mstate = MState::Unlinked;
    let mut mlog = vec![];
    for (step, n) in seq.iter().enumerate() {
        let fut = on_read(state, &mut lc, to_notification(*n), config);
        state = match futures::executor::block_on(fut) {
            Step::Cont(s) => s,
            Step::Terminate => return Err(format!("step {step}: terminated although terminate_on_unlinked is off")),
        };
        model_step(&mut mstate, *n, ews, &mut mlog);
        if view(&state) != mstate {
            return Err(format!("step {step}: downlink state is {:?}, the notifications received imply {:?}", view(&state), mstate));
        }
        if lc.log != mlog {
            return Err(format!("step {step}: lifecycle callbacks were {:?}, expected {:?}", lc.log, mlog));
        }
    }
    Ok(())
}

#[test]
fn map_downlink_contract() {
    let depth: usize = std::env::var("VERIF_BX_DEPTH").ok().and_then(|s| s.parse().ok()).unwrap_or(4);
    let ops = universe();
    let mut evaluations = 0usize;
    let mut failure: Option<String> = None;
    'outer: for ews in [false, true] {
        let mut idx = vec![0usize; depth];
        for len in 1..=depth {
            idx.iter_mut().for_each(|i| *i = 0);
            loop {
                let seq: Vec<N> = idx[..len].iter().map(|i| ops[*i]).collect();
                evaluations += 1;
                if let Err(e) = run_sequence(&seq, ews) {
                    failure = Some(format!("events_when_not_synced={ews} {:?} => {}", seq, e));
                    break 'outer;
                }
                let mut k = 0;
                loop {
                    if k == len {
                        break;
                    }
                    idx[k] += 1;
                    if idx[k] < ops.len() {
                        break;
                    }
                    idx[k] = 0;
                    k += 1;
                }
                if k == len {
                    break;
                }
            }
        }
    }
    println!("BX-SAMPLE depth={depth} universe={} notifications over keys {{1,2}} values {{10,20}}; e.g. [Linked, Update(1,10), Clear, Synced]", ops.len());
    match failure {
        None => println!("BX-OBL map_downlink::state_is_fold_of_notifications_and_callbacks_match ok evaluations={evaluations} distinct={evaluations}"),
        Some(w) => {
            println!("BX-FAIL map_downlink::state_is_fold_of_notifications_and_callbacks_match witness={w}");
            panic!("contract violated");
        }
    }
}
