// BOUNDED law check of Value's PartialEq / Ord / Hash (api/swimos_model/src/value.rs) -- property C19 -- over a boundary-heavy
// POOL: every pair and every triple of pool values. This is the stand-in for the kinds the Kani cell harnesses cannot take
// (BigInt / BigUint: CBMC exceeds 20 GB; Text / Data / Record: heap-allocated, unbounded) and for the triple (transitivity)
// laws whose symbolic cells do not terminate. One obligation per (law, multiset of kinds) cell.
use super::*;
use num_bigint::{BigInt, BigUint};
use std::cmp::Ordering;
use std::collections::hash_map::DefaultHasher;
use std::collections::BTreeMap;
use std::hash::{Hash, Hasher};

fn h(v: &Value) -> u64 {
    let mut s = DefaultHasher::new();
    v.hash(&mut s);
    s.finish()
}

fn pool() -> Vec<(&'static str, Value)> {
    let mut p: Vec<(&'static str, Value)> = vec![("extant", Value::Extant)];
    for n in [i32::MIN, -1, 0, 1, 2, i32::MAX] {
        p.push(("i32", Value::Int32Value(n)));
    }
    for n in [i64::MIN, i32::MIN as i64, -1, 0, 1, 2, i32::MAX as i64, u32::MAX as i64, (1i64 << 53) + 1, i64::MAX] {
        p.push(("i64", Value::Int64Value(n)));
    }
    for n in [0u32, 1, 2, i32::MAX as u32, u32::MAX] {
        p.push(("u32", Value::UInt32Value(n)));
    }
    for n in [0u64, 1, 2, i32::MAX as u64, u32::MAX as u64, (1u64 << 53) + 1, i64::MAX as u64, i64::MAX as u64 + 1, u64::MAX] {
        p.push(("u64", Value::UInt64Value(n)));
    }
    for b in [false, true] {
        p.push(("bool", Value::BooleanValue(b)));
    }
    for x in [
        f64::NEG_INFINITY, -1.8446744073709552e19, -9.223372036854775808e18, -2147483648.0, -1.5, -1.0, -0.0, 0.0, f64::MIN_POSITIVE,
        1.5e-16, 3.0e-16, 0.5, 1.0, 1.0 + f64::EPSILON, 1.5, 2.0, 2147483647.0, 4294967295.0, 9007199254740993.0, 9.223372036854775807e18,
        1.8446744073709552e19, 3.0e40, f64::MAX, f64::INFINITY, f64::NAN, -f64::NAN,
    ] {
        p.push(("f64", Value::Float64Value(x)));
    }
    let two64: BigInt = BigInt::from(u64::MAX) + 1;
    let two127: BigInt = BigInt::from(i128::MAX) + 1;
    let two128: BigInt = BigInt::from(u128::MAX) + 1;
    for b in [
        -two128.clone(), -two127.clone() - 1, -two127.clone(), BigInt::from(i64::MIN) - 1, BigInt::from(i64::MIN), BigInt::from(i32::MIN),
        BigInt::from(-1), BigInt::from(0), BigInt::from(1), BigInt::from(2), BigInt::from(i32::MAX), BigInt::from(u32::MAX),
        BigInt::from((1i64 << 53) + 1), BigInt::from(i64::MAX), BigInt::from(i64::MAX) + 1, BigInt::from(u64::MAX), two64.clone(),
        BigInt::from(i128::MAX), two127.clone(), BigInt::from(u128::MAX), two128.clone(), two128.clone() + 1,
    ] {
        p.push(("bigint", Value::BigInt(b)));
    }
    for b in [
        BigInt::from(0), BigInt::from(1), BigInt::from(2), BigInt::from(i32::MAX), BigInt::from(u32::MAX), BigInt::from((1i64 << 53) + 1),
        BigInt::from(i64::MAX), BigInt::from(i64::MAX) + 1, BigInt::from(u64::MAX), two64.clone(), BigInt::from(i128::MAX), two127.clone(),
        BigInt::from(u128::MAX), two128.clone(), two128.clone() + 1,
    ] {
        p.push(("biguint", Value::BigUint(b.to_biguint().expect("non-negative"))));
    }
    for s in ["", "0", "1", "a", "A", "ab", "b", "true", "\u{e9}", "\0", "a\0"] {
        p.push(("text", Value::text(s)));
    }
    for d in [vec![], vec![0u8], vec![0, 0], vec![1], vec![255], vec![b'a']] {
        p.push(("data", Value::Data(Blob::from_vec(d))));
    }
    let recs = vec![
        Value::Record(vec![], vec![]),
        Value::Record(vec![Attr::of("a")], vec![]),
        Value::Record(vec![Attr::of("b")], vec![]),
        Value::Record(vec![Attr::of(("a", 1))], vec![]),
        Value::Record(vec![Attr::of(("a", 1i64))], vec![]),
        Value::Record(vec![Attr::of(("a", 1.0))], vec![]),
        Value::Record(vec![], vec![Item::of(1)]),
        Value::Record(vec![], vec![Item::of(1u64)]),
        Value::Record(vec![], vec![Item::of(Value::BigInt(BigInt::from(1)))]),
        Value::Record(vec![], vec![Item::of(2)]),
        Value::Record(vec![], vec![Item::of(1), Item::of(2)]),
        Value::Record(vec![], vec![Item::slot("k", 1)]),
        Value::Record(vec![], vec![Item::slot("k", 2)]),
        Value::Record(vec![], vec![Item::slot(1, "v")]),
        Value::Record(vec![], vec![Item::slot(1u32, "v")]),
        Value::Record(vec![], vec![Item::of(Value::Record(vec![], vec![Item::of(1)]))]),
        Value::Record(vec![], vec![Item::of(Value::Extant)]),
    ];
    for r in recs {
        p.push(("record", r));
    }
    p
}

#[derive(Default)]
struct Cell {
    evaluations: usize,
    witness: Option<String>,
}
fn note(cells: &mut BTreeMap<String, Cell>, law: &str, kinds: &mut [&str], ok: bool, witness: impl FnOnce() -> String) {
    kinds.sort();
    let c = cells.entry(format!("{law}::{}", kinds.join("_"))).or_default();
    c.evaluations += 1;
    if !ok && c.witness.is_none() {
        c.witness = Some(witness());
    }
}
fn le(o: Ordering) -> bool {
    o != Ordering::Greater
}

#[test]
fn value_laws_over_pool() {
    let p = pool();
    let mut cells: BTreeMap<String, Cell> = BTreeMap::new();
    for (ka, a) in &p {
        note(&mut cells, "eq_refl", &mut [*ka], a == a, || format!("{a:?} != itself"));
        note(&mut cells, "cmp_refl", &mut [*ka], a.cmp(a) == Ordering::Equal, || format!("cmp({a:?}, itself) = {:?}", a.cmp(a)));
        for (kb, b) in &p {
            let ab = a == b;
            note(&mut cells, "eq_sym", &mut [*ka, *kb], ab == (b == a), || format!("({a:?} == {b:?}) = {ab} but the reverse is {}", b == a));
            note(&mut cells, "eq_implies_same_hash", &mut [*ka, *kb], !ab || h(a) == h(b), || format!("{a:?} == {b:?} but they hash differently"));
            note(&mut cells, "cmp_antisym", &mut [*ka, *kb], a.cmp(b) == b.cmp(a).reverse(), || {
                format!("cmp({a:?}, {b:?}) = {:?} and the reverse is {:?}", a.cmp(b), b.cmp(a))
            });
            note(&mut cells, "cmp_equal_iff_eq", &mut [*ka, *kb], (a.cmp(b) == Ordering::Equal) == ab, || {
                format!("cmp({a:?}, {b:?}) = {:?} but == is {ab}", a.cmp(b))
            });
            for (kc, c) in &p {
                note(&mut cells, "eq_trans", &mut [*ka, *kb, *kc], !(ab && b == c) || a == c, || format!("{a:?} == {b:?} == {c:?} but first != last"));
                note(&mut cells, "cmp_trans", &mut [*ka, *kb, *kc], !(le(a.cmp(b)) && le(b.cmp(c))) || le(a.cmp(c)), || {
                    format!("{a:?} <= {b:?} <= {c:?} but cmp(first, last) = {:?}", a.cmp(c))
                });
            }
        }
    }
    println!("BX-SAMPLE pool of {} values over kinds extant,i32,i64,u32,u64,bool,f64,bigint,biguint,text,data,record; all pairs and triples", p.len());
    let mut failed = false;
    for (id, c) in &cells {
        match &c.witness {
            None => println!("BX-OBL {id} ok evaluations={} distinct={}", c.evaluations, c.evaluations),
            Some(w) => {
                failed = true;
                println!("BX-FAIL {id} witness={w}");
            }
        }
    }
    if failed {
        panic!("contract violated");
    }
}
