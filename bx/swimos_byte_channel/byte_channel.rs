// BOUNDED contract check of the byte channel as its users see it (swimos_utilities/swimos_byte_channel/src/channel/mod.rs:
// byte_channel, ByteWriter / ByteReader as AsyncWrite / AsyncRead, their Drop impls, with the cooperative-yield wrapper when
// the `coop` feature is on) -- property C12: a lossless, bounded FIFO with end-of-stream / broken-pipe signalling and no lost
// wake-ups. (The Conduit state machine itself is proved in the Verus unit `conduit` and the Kani harnesses `channel`, `coop`;
// the Arc<parking_lot::Mutex<..>> wrappers make Kani's compiler crash or CBMC run for > 20 min.)
// EVERY sequence up to VERIF_BX_DEPTH over {write 0..3 bytes, read into a fresh 1..3 byte buffer, read 2 more bytes into a buffer the reader keeps, drop the writer, drop
// the reader}, every poll with a waker of its own,
// for capacities 1, 2 and 3 is run with counting wakers and compared with the model: a byte queue of at most `capacity`.
use super::*;
use std::collections::VecDeque;
use std::sync::atomic::{AtomicUsize, Ordering};
use std::task::{Wake, Waker};

struct Count(AtomicUsize);
impl Wake for Count {
    fn wake(self: Arc<Self>) {
        self.0.fetch_add(1, Ordering::SeqCst);
    }
}

#[derive(Clone, Copy, Debug, PartialEq)]
enum Op {
    Write(usize),
    Read(usize),
    // read into the free part (2 bytes) of a buffer that already holds what earlier ReadMore calls put there
    ReadMore,
    DropWriter,
    DropReader,
}
fn universe() -> Vec<Op> {
    vec![Op::Write(0), Op::Write(1), Op::Write(2), Op::Write(3), Op::Read(1), Op::Read(2), Op::Read(3), Op::ReadMore, Op::DropWriter, Op::DropReader]
}
#[derive(Clone, Copy, Debug, PartialEq)]
enum Side {
    Reader,
    Writer,
}

fn run_sequence(seq: &[Op], capacity: usize) -> Result<bool, String> {
    let (tx, rx) = byte_channel(NonZeroUsize::new(capacity).unwrap());
    let mut tx = Some(tx);
    let mut rx = Some(rx);
    // every poll gets a waker of its own: it is the waker of the LATEST poll that has to be woken
    let mut wcount = Arc::new(Count(AtomicUsize::new(0)));
    let mut rcount = Arc::new(Count(AtomicUsize::new(0)));
    // bytes the reader has accumulated in a buffer it keeps across reads (for Op::ReadMore)
    let mut kept: Vec<u8> = vec![];
    let mut model: VecDeque<u8> = VecDeque::new();
    let mut next_byte: u8 = 1;
    // a side that was told Pending and has not been woken since: (side, wake count when it was parked)
    let mut parked: Option<(Side, Arc<Count>)> = None;
    for (step, op) in seq.iter().enumerate() {
        let mut progress_for: Option<Side> = None; // the other side must be woken if it is parked
        let mut last_pending: Option<Side> = None;
        match *op {
            Op::Write(k) => {
                let Some(w) = tx.as_mut() else { return Ok(false) };
                let data: Vec<u8> = (0..k).map(|i| next_byte.wrapping_add(i as u8)).collect();
                wcount = Arc::new(Count(AtomicUsize::new(0)));
                let wwaker: Waker = wcount.clone().into();
                let mut cx = Context::from_waker(&wwaker);
                let mut result;
                let mut tries = 0;
                loop {
                    result = Pin::new(&mut *w).poll_write(&mut cx, &data);
                    // a cooperative yield: Pending together with an immediate self-wake; poll again
                    if result.is_pending() && wcount.0.load(Ordering::SeqCst) > 0 && tries < 3 {
                        tries += 1;
                        wcount.0.store(0, Ordering::SeqCst);
                        continue;
                    }
                    break;
                }
                let closed = rx.is_none();
                let avail = capacity - model.len();
                match result {
                    Poll::Ready(Err(_)) => {
                        if !closed {
                            return Err(format!("step {step}: write failed although the reader is alive"));
                        }
                    }
                    Poll::Ready(Ok(n)) => {
                        if closed {
                            return Err(format!("step {step}: write of {k} bytes succeeded although the reader is gone"));
                        }
                        let expect = k.min(avail);
                        if n != expect || (k > 0 && avail == 0) {
                            return Err(format!("step {step}: write of {k} bytes with {avail} free accepted {n}, expected {expect}"));
                        }
                        for b in &data[..n] {
                            model.push_back(*b);
                        }
                        next_byte = next_byte.wrapping_add(n as u8);
                        if n > 0 {
                            progress_for = Some(Side::Reader);
                        }
                    }
                    Poll::Pending => {
                        if closed || k == 0 || avail > 0 {
                            return Err(format!("step {step}: write of {k} bytes with {avail} free (reader alive: {}) returned Pending", !closed));
                        }
                        parked = Some((Side::Writer, wcount.clone()));
                        last_pending = Some(Side::Writer);
                    }
                }
            }
            Op::Read(n) => {
                let Some(r) = rx.as_mut() else { return Ok(false) };
                let mut storage = vec![0u8; n];
                rcount = Arc::new(Count(AtomicUsize::new(0)));
                let rwaker: Waker = rcount.clone().into();
                let mut cx = Context::from_waker(&rwaker);
                let mut got: Vec<u8>;
                let mut result;
                let mut tries = 0;
                loop {
                    let mut buf = ReadBuf::new(&mut storage);
                    result = Pin::new(&mut *r).poll_read(&mut cx, &mut buf);
                    got = buf.filled().to_vec();
                    if result.is_pending() && rcount.0.load(Ordering::SeqCst) > 0 && tries < 3 {
                        tries += 1;
                        rcount.0.store(0, Ordering::SeqCst);
                        continue;
                    }
                    break;
                }
                let writer_gone = tx.is_none();
                match result {
                    Poll::Ready(Ok(())) => {
                        let expect: Vec<u8> = model.iter().copied().take(n).collect();
                        if model.is_empty() && !writer_gone {
                            return Err(format!("step {step}: read returned end-of-stream although the writer is alive and nothing is buffered"));
                        }
                        if got != expect {
                            return Err(format!("step {step}: read into {n} bytes returned {:?}, the oldest buffered bytes are {:?}", got, expect));
                        }
                        for _ in 0..got.len() {
                            model.pop_front();
                        }
                        if !got.is_empty() {
                            progress_for = Some(Side::Writer);
                        }
                    }
                    Poll::Ready(Err(e)) => return Err(format!("step {step}: read failed: {e}")),
                    Poll::Pending => {
                        if !model.is_empty() || writer_gone {
                            return Err(format!("step {step}: read returned Pending with {} bytes buffered (writer alive: {})", model.len(), !writer_gone));
                        }
                        parked = Some((Side::Reader, rcount.clone()));
                        last_pending = Some(Side::Reader);
                    }
                }
            }
            Op::ReadMore => {
                let Some(r) = rx.as_mut() else { return Ok(false) };
                if kept.len() > 6 {
                    return Ok(false);
                }
                let mut storage = vec![0u8; kept.len() + 2];
                storage[..kept.len()].copy_from_slice(&kept);
                rcount = Arc::new(Count(AtomicUsize::new(0)));
                let rwaker: Waker = rcount.clone().into();
                let mut cx = Context::from_waker(&rwaker);
                let mut got: Vec<u8>;
                let mut result;
                let mut tries = 0;
                loop {
                    let mut buf = ReadBuf::new(&mut storage);
                    buf.set_filled(kept.len());
                    result = Pin::new(&mut *r).poll_read(&mut cx, &mut buf);
                    got = buf.filled().to_vec();
                    if result.is_pending() && rcount.0.load(Ordering::SeqCst) > 0 && tries < 3 {
                        tries += 1;
                        rcount.0.store(0, Ordering::SeqCst);
                        continue;
                    }
                    break;
                }
                let writer_gone = tx.is_none();
                match result {
                    Poll::Ready(Ok(())) => {
                        let fresh: Vec<u8> = model.iter().copied().take(2).collect();
                        if model.is_empty() && !writer_gone {
                            return Err(format!("step {step}: read returned end-of-stream although the writer is alive and nothing is buffered"));
                        }
                        let mut expect = kept.clone();
                        expect.extend_from_slice(&fresh);
                        if got != expect {
                            return Err(format!("step {step}: a buffer holding {:?} was read into; it now holds {:?}, expected {:?}", kept, got, expect));
                        }
                        for _ in 0..fresh.len() {
                            model.pop_front();
                        }
                        kept = got;
                        if !fresh.is_empty() {
                            progress_for = Some(Side::Writer);
                        }
                    }
                    Poll::Ready(Err(e)) => return Err(format!("step {step}: read failed: {e}")),
                    Poll::Pending => {
                        if !model.is_empty() || writer_gone {
                            return Err(format!("step {step}: read returned Pending with {} bytes buffered (writer alive: {})", model.len(), !writer_gone));
                        }
                        if got != kept {
                            return Err(format!("step {step}: a pending read changed the caller's buffer"));
                        }
                        parked = Some((Side::Reader, rcount.clone()));
                        last_pending = Some(Side::Reader);
                    }
                }
            }
            Op::DropWriter => {
                if tx.take().is_none() {
                    return Ok(false);
                }
                if matches!(parked, Some((Side::Writer, _))) {
                    parked = None;
                }
                progress_for = Some(Side::Reader);
            }
            Op::DropReader => {
                if rx.take().is_none() {
                    return Ok(false);
                }
                if matches!(parked, Some((Side::Reader, _))) {
                    parked = None;
                }
                progress_for = Some(Side::Writer);
            }
        }
        // no lost wake-up: the waker of the parked side's LATEST poll is woken as soon as the other side makes progress or goes
        // away (a poll that returned Ready un-parks that side)
        if let Some((p, _)) = &parked {
            let repolled_ready = match (*p, *op) {
                (Side::Reader, Op::Read(_)) | (Side::Reader, Op::ReadMore) => !matches!(last_pending, Some(Side::Reader)),
                (Side::Writer, Op::Write(_)) => !matches!(last_pending, Some(Side::Writer)),
                _ => false,
            };
            if repolled_ready {
                parked = None;
            }
        }
        if let (Some(side), Some((p, counter))) = (progress_for, parked.clone()) {
            if side == p {
                if counter.0.load(Ordering::SeqCst) == 0 {
                    return Err(format!("step {step}: the parked {:?} (waker of its latest poll) was not woken by {:?}", p, op));
                }
                parked = None;
            }
        }
    }
    Ok(true)
}

#[test]
fn byte_channel_contract() {
    let depth: usize = std::env::var("VERIF_BX_DEPTH").ok().and_then(|s| s.parse().ok()).unwrap_or(6);
    let ops = universe();
    let mut evaluations = 0usize;
    let mut nontrivial = 0usize;
    let mut failure: Option<String> = None;
    'outer: for capacity in 1..=3usize {
        let mut idx = vec![0usize; depth];
        for len in 1..=depth {
            idx.iter_mut().for_each(|i| *i = 0);
            loop {
                let seq: Vec<Op> = idx[..len].iter().map(|i| ops[*i]).collect();
                evaluations += 1;
                match run_sequence(&seq, capacity) {
                    Ok(true) => nontrivial += 1,
                    Ok(false) => {}
                    Err(e) => {
                        failure = Some(format!("capacity={capacity} {:?} => {}", seq, e));
                        break 'outer;
                    }
                }
                let mut k = 0;
                loop {
                    if k == len {
                        break;
                    }
                    idx[k] += 1;
                    if idx[k] < ops.len() {
                        break;
                    }
                    idx[k] = 0;
                    k += 1;
                }
                if k == len {
                    break;
                }
            }
        }
    }
    println!("BX-SAMPLE depth={depth} capacities 1..3, operations {{write 0..3 bytes, read into 1..3 bytes, drop writer, drop reader}}; e.g. [Write(3), Write(1), Read(2), DropWriter, Read(3)]");
    match failure {
        None => println!("BX-OBL byte_channel::lossless_bounded_fifo_eof_broken_pipe_and_no_lost_wakeups ok evaluations={evaluations} distinct={nontrivial}"),
        Some(w) => {
            println!("BX-FAIL byte_channel::lossless_bounded_fifo_eof_broken_pipe_and_no_lost_wakeups witness={w}");
            panic!("contract violated");
        }
    }
}
