// BOUNDED fault-injection check of the RocksDB-backed store (runtime/swimos_rocks_store: open_rocks_store -> plane -> node store;
// engine::RocksEngine put/merge/delete) -- property C13: "... after the process is killed at any moment, with every acknowledged
// operation still present", and "the identifier assigned to a name never changes or collides".
// Durability under a kill lives inside RocksDB and the operating system, outside any contract a verifier here can discharge; what
// CAN be checked on the real code is the store's observable contract across a real SIGKILL: a writer PROCESS (this test binary,
// re-executed) performs a fixed script of operations through the real store and acknowledges each one on its stdout; the parent
// kills it (SIGKILL: nothing is closed or flushed by the process) right after acknowledgement number k, reopens the database and
// checks that what it reads is the state after j operations of the script for some j >= k (every acknowledged operation present,
// later ones all-or-nothing in order), that every acknowledged identifier is unchanged, and that a name created after the
// restart gets an identifier no acknowledged name holds.
// Bound: one script (3 lanes, 14 operations), a kill after each of VERIF_BX_DEPTH evenly spread acknowledgements.
use crate::server::{default_db_opts, open_rocks_store};
use bytes::BytesMut;
use futures::executor::block_on;
use std::collections::BTreeMap;
use std::io::{BufRead, BufReader, Write};
use std::path::{Path, PathBuf};
use std::process::{Command, Stdio};
use swimos_api::persistence::{NodePersistence, PlanePersistence, RangeConsumer, ServerPersistence};
use tempdir::TempDir;

const DIR_VAR: &str = "VERIF_BX_ROCKS_KILL_DIR";
const ACK: &str = "@@ACK";
const PLANE: &str = "plane";
const NODE: &str = "/node";
const LANES: [&str; 3] = ["value", "map", "other"];

#[derive(Clone, Debug)]
enum Op {
    IdFor(usize),
    Put(usize, &'static [u8]),
    Update(usize, &'static [u8], &'static [u8]),
    Remove(usize, &'static [u8]),
    Clear(usize),
}

fn script() -> Vec<Op> {
    vec![
        Op::IdFor(0),
        Op::Put(0, b"first"),
        Op::IdFor(1),
        Op::Update(1, b"key", b"value1"),
        Op::Update(1, b"", b"empty"),
        Op::Put(0, b"second"),
        Op::Update(1, b"key", b"value2"),
        Op::Remove(1, b""),
        Op::IdFor(2),
        Op::Update(2, b"a", b"1"),
        Op::Update(2, b"b", b"2"),
        Op::Clear(2),
        Op::Update(2, b"c", b"3"),
        Op::Put(0, b""),
    ]
}

#[derive(Clone, Default, PartialEq, Eq, Debug)]
struct Model {
    known: [bool; 3],
    value: Option<Vec<u8>>,
    maps: [BTreeMap<Vec<u8>, Vec<u8>>; 3],
}

fn apply(m: &mut Model, op: &Op) {
    match op {
        Op::IdFor(l) => m.known[*l] = true,
        Op::Put(_, v) => m.value = Some(v.to_vec()),
        Op::Update(l, k, v) => {
            m.maps[*l].insert(k.to_vec(), v.to_vec());
        }
        Op::Remove(l, k) => {
            m.maps[*l].remove(*k);
        }
        Op::Clear(l) => m.maps[*l].clear(),
    }
}

fn open_node(path: &Path) -> impl NodePersistence {
    let server = open_rocks_store(Some(PathBuf::from(path)), default_db_opts()).expect("open store");
    let plane = server.open_plane(PLANE).expect("open plane");
    block_on(plane.node_store(NODE)).expect("open node")
}

fn show<T: std::fmt::Debug>(id: &Option<T>) -> String { match id { Some(i) => format!("{:?}", i).replace(' ', ""), None => "-".to_string() } }
// the writer process: never returns
fn writer(path: &Path) -> ! {
    let mut node = open_node(path);
    let mut ids = [None; 3];
    for (n, op) in script().iter().enumerate() {
        match op {
            Op::IdFor(l) => ids[*l] = Some(node.id_for(LANES[*l]).expect("id_for")),
            Op::Put(l, v) => node.put_value(ids[*l].unwrap(), v).expect("put"),
            Op::Update(l, k, v) => node.update_map(ids[*l].unwrap(), k, v).expect("update"),
            Op::Remove(l, k) => node.remove_map(ids[*l].unwrap(), k).expect("remove"),
            Op::Clear(l) => node.clear_map(ids[*l].unwrap()).expect("clear"),
        }
        println!("{} {} {} {} {}", ACK, n + 1, show(&ids[0]), show(&ids[1]), show(&ids[2]));
        std::io::stdout().flush().expect("flush");
    }
    // everything is acknowledged: wait to be killed
    loop {
        std::thread::sleep(std::time::Duration::from_millis(10));
    }
}

fn read_state<N: NodePersistence>(node: &N, ids: &[Option<N::LaneId>; 3], known: &[bool; 3]) -> Result<Model, String> {
    let mut m = Model { known: *known, ..Default::default() };
    if known[0] {
        let mut buffer = BytesMut::new();
        match node.get_value(ids[0].unwrap(), &mut buffer) {
            Ok(Some(_)) => m.value = Some(buffer.as_ref().to_vec()),
            Ok(None) => m.value = None,
            Err(e) => return Err(format!("get_value failed: {:?}", e)),
        }
    }
    for l in 1..3 {
        if known[l] {
            let mut consumer = node.read_map(ids[l].unwrap()).map_err(|e| format!("read_map failed: {:?}", e))?;
            while let Some((k, v)) = consumer.consume_next().map_err(|e| format!("consume_next failed: {:?}", e))? {
                if m.maps[l].insert(k.to_vec(), v.to_vec()).is_some() {
                    return Err(format!("key {:?} listed twice", k));
                }
            }
        }
    }
    Ok(m)
}

#[test]
fn rocks_kill() {
    if let Some(dir) = std::env::var_os(DIR_VAR) {
        writer(Path::new(&dir));
    }
    let ops = script();
    let n = ops.len();
    let depth: usize = std::env::var("VERIF_BX_DEPTH").ok().and_then(|s| s.parse().ok()).unwrap_or(4);
    let mut kill_points: Vec<usize> = (1..=depth.min(n)).map(|i| (i * n + depth.min(n) - 1) / depth.min(n)).collect();
    kill_points.dedup();
    let exe = std::env::current_exe().expect("test executable");
    let mut fail: Option<String> = None;
    let mut evaluations = 0usize;
    for &k in &kill_points {
        let dir = TempDir::new("verif_rocks_kill").expect("temp dir");
        let mut child = Command::new(&exe)
            .args(["verif_bx_rocks_kill", "--nocapture", "--test-threads=1"])
            .env(DIR_VAR, dir.path())
            .stdin(Stdio::null())
            .stdout(Stdio::piped())
            .stderr(Stdio::null())
            .spawn()
            .expect("start writer");
        let stdout = BufReader::new(child.stdout.take().expect("stdout"));
        let mut acked_ids: [String; 3] = Default::default();
        let mut acked = 0usize;
        for line in stdout.lines() {
            let line = match line { Ok(l) => l, Err(_) => break };
            if let Some(i) = line.find(ACK) {
                let f: Vec<&str> = line[i + ACK.len()..].split_whitespace().collect();
                if f.len() == 4 {
                    acked = f[0].parse().unwrap_or(0);
                    for l in 0..3 { acked_ids[l] = f[l + 1].to_string(); }
                }
                if acked >= k { break; }
            }
        }
        let _ = child.kill();
        let _ = child.wait();
        evaluations += 1;
        if acked < k {
            fail = Some(format!("kill point {}: the writer stopped after {} acknowledgements", k, acked));
            break;
        }
        // what was acknowledged when the kill was sent
        let mut known_k = [false; 3];
        for op in &ops[..k] { if let Op::IdFor(l) = op { known_k[*l] = true; } }
        // reopen
        let node = open_node(dir.path());
        let mut ids = [None; 3];
        let mut bad = None;
        for l in 0..3 {
            if known_k[l] {
                ids[l] = Some(node.id_for(LANES[l]).expect("id_for after restart"));
                if show(&ids[l]) != acked_ids[l] {
                    bad = Some(format!("lane {:?} had id {} before the kill and {} after", LANES[l], acked_ids[l], show(&ids[l])));
                }
            }
        }
        if bad.is_none() {
            // candidate states: after j operations, j in k..=n (operations after the acknowledged ones may or may not have happened;
            // lanes whose id_for was not acknowledged are looked up only if the candidate includes it)
            let mut matched = false;
            let mut seen = String::new();
            for j in k..=n {
                let mut model = Model::default();
                for op in &ops[..j] { apply(&mut model, op); }
                let mut ids_j = ids;
                let mut consistent = true;
                for l in 0..3 {
                    if model.known[l] && !known_k[l] {
                        // allocated after the kill point: whatever id it has now must not collide
                        ids_j[l] = Some(node.id_for(LANES[l]).expect("id_for"));
                    }
                }
                for a in 0..3 { for b in 0..a { if model.known[a] && model.known[b] && ids_j[a] == ids_j[b] { consistent = false; } } }
                match read_state(&node, &ids_j, &model.known) {
                    Ok(actual) => {
                        if consistent && actual == model { matched = true; break; }
                        if j == k { seen = format!("{:?}", actual); }
                    }
                    Err(e) => { seen = e; }
                }
            }
            if !matched {
                bad = Some(format!("state after restart is not the state after j >= {} operations of the script; read for j = {}: {}", k, k, seen));
            }
        }
        if bad.is_none() {
            // a name created after the restart must not collide with an acknowledged one
            let fresh = Some(node.id_for("created-after-restart").expect("id_for"));
            for l in 0..3 {
                if known_k[l] && show(&fresh) == acked_ids[l] {
                    bad = Some(format!("a name created after the restart got id {} which lane {:?} already holds", show(&fresh), LANES[l]));
                }
            }
        }
        if let Some(b) = bad {
            fail = Some(format!("script={:?} killed-after-ack={} :: {}", &ops[..k], k, b));
            break;
        }
    }
    println!("BX-SAMPLE kill after acknowledgement {:?} of {:?}", kill_points, ops);
    match fail {
        None => println!("BX-OBL rocks_kill::acknowledged_operations_and_ids_survive_sigkill ok evaluations={} distinct={}", evaluations, evaluations),
        Some(w) => println!("BX-FAIL rocks_kill::acknowledged_operations_and_ids_survive_sigkill witness={}", w),
    }
}
