// BOUNDED contract check of the lane-identifier allocator of the RocksDB store (runtime/swimos_rocks_store/src/server/
// keystore.rs: KeyStore::{initialise_with, id_for}) -- property C13: a lane name keeps its identifier and no two names ever
// share one, also after the process is killed at any moment and the store reopened.
// (Effects through &self on a shared engine: not expressible as a Verus frame here; RocksDB itself cannot be built under Kani.)
// The engine is an in-memory KeyspaceByteEngine with the merge operator of the real store (rocks::incrementing_merge_operator
// semantics: existing-or-INITIAL plus the operands) that can be told to "kill the process" at the k-th write: that write and
// everything after it never reaches the store and the in-memory KeyStore is thrown away.
// Checked for EVERY sequence of id_for calls up to VERIF_BX_DEPTH over three names, for a kill before every write (and no
// kill), followed by a reopen and id_for on all three names.
use super::*;
use crate::keyspaces::Keyspace;
use crate::nostore::NoRange;
use crate::utils::serialize_u64_vec;
use std::cell::Cell;
use std::collections::{BTreeMap, HashMap};
use std::sync::Mutex;

type Table = HashMap<String, HashMap<Vec<u8>, Vec<u8>>>;
struct Engine {
    persisted: Mutex<Table>,
    writes_until_kill: Mutex<Option<usize>>,
    killed: Mutex<bool>,
}
impl Engine {
    fn new(persisted: Table, kill_at: Option<usize>) -> Self {
        Engine { persisted: Mutex::new(persisted), writes_until_kill: Mutex::new(kill_at), killed: Mutex::new(false) }
    }
    // Ok(()) if the write goes through
    fn write_allowed(&self) -> Result<(), StoreError> {
        if *self.killed.lock().unwrap() {
            return Err(StoreError::KeyspaceNotFound);
        }
        let mut g = self.writes_until_kill.lock().unwrap();
        if let Some(n) = g.as_mut() {
            if *n == 0 {
                *self.killed.lock().unwrap() = true;
                return Err(StoreError::KeyspaceNotFound);
            }
            *n -= 1;
        }
        Ok(())
    }
}
impl KeyspaceByteEngine for Engine {
    type RangeCon<'a> = NoRange where Self: 'a;
    fn get_prefix_range_consumer<'a, S: Keyspace>(&'a self, _keyspace: S, _prefix: &[u8]) -> Result<Self::RangeCon<'a>, StoreError> {
        Ok(NoRange)
    }
    fn put_keyspace<K: Keyspace>(&self, keyspace: K, key: &[u8], value: &[u8]) -> Result<(), StoreError> {
        self.write_allowed()?;
        self.persisted.lock().unwrap().entry(keyspace.name().to_string()).or_default().insert(key.to_vec(), value.to_vec());
        Ok(())
    }
    fn get_keyspace<K: Keyspace>(&self, keyspace: K, key: &[u8]) -> Result<Option<Vec<u8>>, StoreError> {
        if *self.killed.lock().unwrap() {
            return Err(StoreError::KeyspaceNotFound);
        }
        Ok(self.persisted.lock().unwrap().get(keyspace.name()).and_then(|t| t.get(key).cloned()))
    }
    fn delete_keyspace<K: Keyspace>(&self, keyspace: K, key: &[u8]) -> Result<(), StoreError> {
        self.write_allowed()?;
        if let Some(t) = self.persisted.lock().unwrap().get_mut(keyspace.name()) {
            t.remove(key);
        }
        Ok(())
    }
    fn merge_keyspace<K: Keyspace>(&self, keyspace: K, key: &[u8], step: u64) -> Result<(), StoreError> {
        self.write_allowed()?;
        let mut g = self.persisted.lock().unwrap();
        let t = g.entry(keyspace.name().to_string()).or_default();
        let existing = match t.get(key) {
            Some(bytes) => deserialize_u64(bytes).expect("stored counter"),
            None => INITIAL,
        };
        t.insert(key.to_vec(), serialize_u64_vec(existing + step));
        Ok(())
    }
    fn delete_key_range<S: Keyspace>(&self, _keyspace: S, _start: &[u8], _ubound: &[u8]) -> Result<(), StoreError> {
        self.write_allowed()
    }
}

const NAMES: [&str; 3] = ["/a/x", "/b/y", "/c/z"];

fn run_case(seq: &[usize], kill_at: Option<usize>) -> Result<(), String> {
    let engine = Arc::new(Engine::new(Table::new(), kill_at));
    let store = KeyStore::initialise_with(engine.clone());
    // what callers were told before the kill
    let mut told: BTreeMap<usize, u64> = BTreeMap::new();
    for (step, n) in seq.iter().enumerate() {
        match store.id_for(NAMES[*n].to_string()) {
            Ok(id) => {
                if let Some(prev) = told.get(n) {
                    if *prev != id {
                        return Err(format!("step {step}: {} was given id {prev} and now {id}", NAMES[*n]));
                    }
                }
                for (m, other) in &told {
                    if m != n && *other == id {
                        return Err(format!("step {step}: {} and {} were both given id {id}", NAMES[*n], NAMES[*m]));
                    }
                }
                told.insert(*n, id);
            }
            Err(_) => break, // the process was killed in this call
        }
    }
    drop(store);
    // restart against what reached the store
    let persisted = engine.persisted.lock().unwrap().clone();
    let engine2 = Arc::new(Engine::new(persisted, None));
    let store2 = KeyStore::initialise_with(engine2);
    let mut after: BTreeMap<usize, u64> = BTreeMap::new();
    // ask in an order that puts names first seen after the restart FIRST (they take fresh ids)
    let mut order: Vec<usize> = (0..3).filter(|n| !told.contains_key(n)).collect();
    order.extend((0..3).filter(|n| told.contains_key(n)));
    for n in order {
        let id = store2.id_for(NAMES[n].to_string()).map_err(|e| format!("after the restart id_for failed: {e}"))?;
        for (m, other) in &after {
            if *other == id {
                return Err(format!("after the restart {} and {} were both given id {id}", NAMES[n], NAMES[*m]));
            }
        }
        after.insert(n, id);
    }
    for (n, id) in &told {
        if after[n] != *id {
            return Err(format!("{} had been given id {id} before the kill and has id {} after the restart", NAMES[*n], after[n]));
        }
    }
    Ok(())
}

#[test]
fn keystore_contract() {
    let depth: usize = std::env::var("VERIF_BX_DEPTH").ok().and_then(|s| s.parse().ok()).unwrap_or(4);
    let mut evaluations = 0usize;
    let mut failure: Option<String> = None;
    let mut idx = vec![0usize; depth];
    'outer: for len in 1..=depth {
        idx.iter_mut().for_each(|i| *i = 0);
        loop {
            let seq: Vec<usize> = idx[..len].to_vec();
            let mut kills: Vec<Option<usize>> = vec![None];
            kills.extend((0..=2 * len).map(Some));
            for k in kills {
                evaluations += 1;
                if let Err(e) = run_case(&seq, k) {
                    failure = Some(format!("id_for calls {:?}, killed before write #{:?} => {}", seq.iter().map(|n| NAMES[*n]).collect::<Vec<_>>(), k, e));
                    break 'outer;
                }
            }
            let mut k = 0;
            loop {
                if k == len {
                    break;
                }
                idx[k] += 1;
                if idx[k] < 3 {
                    break;
                }
                idx[k] = 0;
                k += 1;
            }
            if k == len {
                break;
            }
        }
    }
    let _ = Cell::new(0);
    println!("BX-SAMPLE depth={depth} names {:?}; e.g. id_for(/a/x), id_for(/b/y) killed before write #3, reopen, id_for on all names", NAMES);
    match failure {
        None => println!("BX-OBL keystore::ids_stable_and_unique_across_kill_and_reopen ok evaluations={evaluations} distinct={evaluations}"),
        Some(w) => {
            println!("BX-FAIL keystore::ids_stable_and_unique_across_kill_and_reopen witness={w}");
            panic!("contract violated");
        }
    }
}
