// BOUNDED contract check of the runtime's coalescing queue for map lanes / map downlinks
// (runtime/swimos_runtime/src/backpressure/map_queue/mod.rs: MapOperationQueue::{push, pop}) through its public interface --
// composition check and concrete-witness finder next to the Verus unit `map_queue` (which is UNDECIDED, by design, when the
// functions are restructured). Properties C02 / C04 / C07: a replica that applies what it receives converges to the map; only
// superseded operations are dropped; nothing is fabricated -- every operation handed out is one that was pushed, with exactly
// the value that was pushed with that key.
// Every sequence up to VERIF_BX_DEPTH over {update(k, fresh value) for 3 keys, remove(k), clear, pop}; after every step:
//  * every popped operation is (key, value)-wise one that was pushed, and is not older than one already popped for that key;
//  * replaying everything popped so far and then everything still queued (obtained from a drained clone of the history) gives
//    the same map as replaying every pushed operation in order.
use super::MapOperationQueue;
use bytes::BytesMut;
use std::collections::BTreeMap;
use swimos_agent_protocol::MapOperation;

#[derive(Clone, Copy, Debug, PartialEq, Eq)]
enum Op { Upd(u8), Rem(u8), Clear, Pop }

type Plain = MapOperation<Vec<u8>, Vec<u8>>;

fn key(k: u8) -> Vec<u8> { vec![b'a' + k] }

fn apply(map: &mut BTreeMap<Vec<u8>, Vec<u8>>, op: &Plain) {
    match op {
        MapOperation::Update { key, value } => { map.insert(key.clone(), value.clone()); }
        MapOperation::Remove { key } => { map.remove(key); }
        MapOperation::Clear => map.clear(),
    }
}

fn to_raw(op: &Plain) -> MapOperation<BytesMut, BytesMut> {
    match op {
        MapOperation::Update { key, value } => MapOperation::Update { key: BytesMut::from(&key[..]), value: BytesMut::from(&value[..]) },
        MapOperation::Remove { key } => MapOperation::Remove { key: BytesMut::from(&key[..]) },
        MapOperation::Clear => MapOperation::Clear,
    }
}

// runs a history from scratch; returns (popped operations, pushed operations) or a description of a contract violation
fn run(history: &[Op], drain: bool) -> Result<(Vec<Plain>, Vec<Plain>), String> {
    let mut q = MapOperationQueue::default();
    let mut pushed: Vec<Plain> = vec![];
    let mut popped: Vec<Plain> = vec![];
    let mut counter: u32 = 0;
    let mut steps: Vec<Op> = history.to_vec();
    if drain {
        for _ in 0..(history.len() + 1) { steps.push(Op::Pop); }
    }
    for (i, op) in steps.iter().enumerate() {
        let plain = match op {
            Op::Upd(k) => {
                counter += 1;
                // values of different lengths, so that both the in-place and the replace branch of push are taken
                let mut v = format!("v{}", counter).into_bytes();
                if counter % 2 == 0 { v.extend_from_slice(b"-longer-value"); }
                Some(MapOperation::Update { key: key(*k), value: v })
            }
            Op::Rem(k) => Some(MapOperation::Remove { key: key(*k) }),
            Op::Clear => Some(MapOperation::Clear),
            Op::Pop => None,
        };
        match plain {
            Some(p) => {
                if q.push(to_raw(&p)).is_err() { return Err(format!("step {}: push rejected a valid key", i)); }
                pushed.push(p);
            }
            None => {
                if let Some(out) = q.pop() {
                    let out: Plain = match out {
                        MapOperation::Update { key, value } => MapOperation::Update { key: key.to_vec(), value: value.to_vec() },
                        MapOperation::Remove { key } => MapOperation::Remove { key: key.to_vec() },
                        MapOperation::Clear => MapOperation::Clear,
                    };
                    // not fabricated: exactly an operation that was pushed
                    let pos = pushed.iter().rposition(|p| *p == out);
                    match pos {
                        None => return Err(format!("step {}: popped {:?} which was never pushed", i, out)),
                        Some(_) => {}
                    }
                    popped.push(out);
                } else if i < history.len() {
                    // popping an empty queue is fine
                }
            }
        }
        if q.is_empty() != (q.queue.len() == 0) { return Err(format!("step {}: is_empty disagrees with the queue", i)); }
    }
    if drain && !q.is_empty() { return Err("the queue is not empty after more pops than pushes".to_string()); }
    Ok((popped, pushed))
}

fn check(history: &[Op]) -> Result<(), String> {
    // the history as given, then drained: what a replica receives in total
    let (popped, pushed) = run(history, true)?;
    let mut replica = BTreeMap::new();
    for p in &popped { apply(&mut replica, p); }
    let mut lane = BTreeMap::new();
    for p in &pushed { apply(&mut lane, p); }
    if replica != lane {
        return Err(format!("a replica applying what it receives holds {:?}, the map is {:?}; received {:?}", replica, lane, popped));
    }
    // per key: the operations received for that key (and the clears) are an in-order subsequence of those pushed for it
    for k in 0..3u8 {
        let kk = key(k);
        let on_key = |p: &&Plain| match p { MapOperation::Update { key, .. } | MapOperation::Remove { key } => *key == kk, MapOperation::Clear => true };
        let pushed_k: Vec<&Plain> = pushed.iter().filter(on_key).collect();
        let mut from = 0usize;
        for p in popped.iter().filter(on_key) {
            match pushed_k[from..].iter().position(|x| *x == p) {
                Some(i) => from += i + 1,
                None => return Err(format!("for key {:?} the received operations are not an in-order subsequence of the pushed ones ({:?} out of order); received {:?}", kk, p, popped)),
            }
        }
    }
    Ok(())
}

#[test]
fn map_queue_ops() {
    let depth: usize = std::env::var("VERIF_BX_DEPTH").ok().and_then(|s| s.parse().ok()).unwrap_or(6);
    let alphabet = [Op::Upd(0), Op::Upd(1), Op::Upd(2), Op::Rem(0), Op::Rem(1), Op::Clear, Op::Pop];
    let mut evaluations = 0u64;
    let mut fail: Option<String> = None;
    let mut idx = vec![0usize; depth];
    'outer: for len in 1..=depth {
        for x in idx.iter_mut() { *x = 0; }
        loop {
            let history: Vec<Op> = idx[..len].iter().map(|i| alphabet[*i]).collect();
            evaluations += 1;
            let h2 = history.clone();
            let res = std::panic::catch_unwind(move || check(&h2)).unwrap_or_else(|_| Err("the queue panicked (an internal assertion or index failed)".to_string()));
            if let Err(e) = res {
                fail = Some(format!("history={:?} :: {}", history, e));
                break 'outer;
            }
            let mut p = 0;
            loop {
                if p == len { break; }
                idx[p] += 1;
                if idx[p] < alphabet.len() { break; }
                idx[p] = 0;
                p += 1;
            }
            if p == len { break; }
        }
    }
    println!("BX-SAMPLE [Upd(0), Clear, Upd(1), Pop, Upd(0), Pop, Pop] then drained");
    match fail {
        None => println!("BX-OBL map_queue_ops::replica_converges_nothing_fabricated_in_order ok evaluations={} distinct={}", evaluations, evaluations),
        Some(w) => println!("BX-FAIL map_queue_ops::replica_converges_nothing_fabricated_in_order witness={}", w),
    }
}
