// BOUNDED contract check of the agent runtime's write task against a recording store (runtime/swimos_runtime/src/agent/task/mod.rs:
// write_task -- the prologue that looks up the store ids of the lanes, and the `persist_response(..)?` / `handle_event` pair of the
// event loop) -- property C05: "any state of a persistent lane that has been sent to any subscriber was handed to the store before
// it was sent".
// (The order of two statements inside an async select loop has no function boundary to hang a contract on; WHAT is handed to the
// store per response is the Verus unit `persist`.) The real `write_task` runs with the crate's fake agent and a store that records
// every call and can be told to fail: never, on the id lookup of the persistent value lane, or on its k-th write. One remote links
// to the persistent value lane; the lane produces numbered values; the remote reads what has arrived.
// Contract, checked on EVERY frame the remote receives, for EVERY input sequence up to VERIF_BX_DEPTH and every fault mode:
//   an event with body n on the persistent lane is only ever received when the store's log already holds a successful
//   put_value(id of that lane, n); a write the store REFUSED is never received.
use super::*;
use futures::FutureExt;
use std::sync::{Arc, Mutex};
use swimos_api::error::StoreError;

#[derive(Clone, Copy, Debug, PartialEq)]
enum Fault { None, IdLookup, Put(usize) }

#[derive(Clone)]
struct RecStore {
    puts: Arc<Mutex<Vec<(u64, Vec<u8>, bool)>>>, // (id, bytes, accepted)
    fault: Fault,
}
const VAL_ID: u64 = 7;
const MAP_ID: u64 = 8;

impl AgentPersistence for RecStore {
    type StoreId = u64;
    fn store_id(&self, name: &str) -> Result<u64, StoreError> {
        if name == VAL_LANE {
            if self.fault == Fault::IdLookup {
                Err(StoreError::Io(std::io::Error::from(std::io::ErrorKind::TimedOut)))
            } else {
                Ok(VAL_ID)
            }
        } else if name == MAP_LANE {
            Ok(MAP_ID)
        } else {
            Err(StoreError::NoStoreAvailable)
        }
    }
    fn init_value_store(&self, _store_id: u64) -> Option<crate::agent::store::BoxInitializer<'_>> { None }
    fn init_map_store(&self, _store_id: u64) -> Option<crate::agent::store::BoxInitializer<'_>> { None }
    fn put_value(&mut self, store_id: u64, bytes: &[u8]) -> Result<(), StoreError> {
        let mut g = self.puts.lock().unwrap();
        let k = g.iter().filter(|p| p.0 == store_id).count() + 1;
        let refuse = self.fault == Fault::Put(k) && store_id == VAL_ID;
        g.push((store_id, bytes.to_vec(), !refuse));
        if refuse { Err(StoreError::Io(std::io::Error::from(std::io::ErrorKind::TimedOut))) } else { Ok(()) }
    }
    fn apply_map<B: AsRef<[u8]>>(&mut self, _store_id: u64, _op: &swimos_agent_protocol::MapOperation<B, B>) -> Result<(), StoreError> { Ok(()) }
}

#[derive(Clone, Copy, Debug)]
enum Op { Link, Event, Drain }

async fn settle() {
    for _ in 0..32 { tokio::task::yield_now().await; }
}

fn check_frames(reader: &mut RemoteReceiver, store: &RecStore) -> Result<usize, String> {
    let mut n_frames = 0;
    loop {
        match reader.inner.next().now_or_never() {
            Some(Some(Ok(msg))) => {
                n_frames += 1;
                if msg.path.lane.as_str() != VAL_LANE { continue; }
                if let Notification::Event(body) = msg.envelope {
                    let log = store.puts.lock().unwrap();
                    let held = log.iter().any(|(id, b, ok)| *id == VAL_ID && *ok && b.as_slice() == body.as_ref());
                    if !held {
                        let refused = log.iter().any(|(id, b, ok)| *id == VAL_ID && !*ok && b.as_slice() == body.as_ref());
                        return Err(format!("the remote received value {:?} of the persistent lane; the store {} (store log: {:?})",
                            String::from_utf8_lossy(body.as_ref()),
                            if refused { "REFUSED that write" } else { "was never handed it" },
                            log.iter().map(|(i, b, ok)| format!("put({}, {:?}, accepted={})", i, String::from_utf8_lossy(b), ok)).collect::<Vec<_>>()));
                    }
                }
            }
            Some(Some(Err(e))) => return Err(format!("bad frame: {e}")),
            _ => break,
        }
    }
    Ok(n_frames)
}

async fn run_sequence(seq: Vec<Op>, fault: Fault) -> Result<bool, String> {
    let store = RecStore { puts: Default::default(), fault };
    let st = store.clone();
    run_test_case_with_store(DEFAULT_TIMEOUT, false, store, false, |context| async move {
        let TestContext { stop_sender, messages_tx, read_voter: _read_voter, http_voter: _http_voter, vote_rx: _vote_rx, instr_tx, .. } = context;
        // attaching cannot use the crate's helper (it waits for an acknowledgement that a write task which refused to run never sends)
        let (completion_tx, completion_rx) = promise::promise();
        let (tx, rx) = byte_channel(BUFFER_SIZE);
        let attached = messages_tx.send(WriteTaskMessage::Remote { id: RID1, writer: tx, completion: completion_tx, on_attached: None }).await.is_ok();
        let mut reader = RemoteReceiver::new(AGENT_ID, NODE.to_string(), rx, completion_rx);
        let mut linked = false;
        let mut next = 1i32;
        let mut interesting = false;
        settle().await;
        for op in &seq {
            match op {
                Op::Link => {
                    if linked || !attached { drop(stop_sender); return Ok(false); }
                    let _ = messages_tx.send(WriteTaskMessage::Coord(RwCoordinationMessage::Link { origin: RID1, lane: Text::new(VAL_LANE) })).await;
                    linked = true;
                }
                Op::Event => { instr_tx.value_event(VAL_LANE, next); next += 1; }
                Op::Drain => { if check_frames(&mut reader, &st)? > 0 { interesting = true; } }
            }
            settle().await;
        }
        if check_frames(&mut reader, &st)? > 0 { interesting = true; }
        stop_sender.trigger();
        settle().await;
        check_frames(&mut reader, &st)?;
        Ok(interesting)
    })
    .await
}

#[test]
fn write_task_persist() {
    std::panic::set_hook(Box::new(|_| {}));
    let depth: usize = std::env::var("VERIF_BX_DEPTH").ok().and_then(|s| s.parse().ok()).unwrap_or(4);
    let alphabet = [Op::Link, Op::Event, Op::Drain];
    let faults = [Fault::None, Fault::IdLookup, Fault::Put(1), Fault::Put(2)];
    let rt = tokio::runtime::Builder::new_current_thread().enable_time().build().expect("runtime");
    let mut evaluations = 0usize;
    let mut nontrivial = 0usize;
    let mut fail: Option<String> = None;
    'outer: for fault in faults {
        for len in 1..=depth {
            let mut idx = vec![0usize; len];
            loop {
                let seq: Vec<Op> = idx.iter().map(|i| alphabet[*i]).collect();
                evaluations += 1;
                // with a failing store the write task stops; the crate's fake agent then panics when asked to produce another event
                // ("lane channel closed"): nothing more can be published, which is what the contract wants
                let seq2 = seq.clone();
                let outcome = std::panic::catch_unwind(std::panic::AssertUnwindSafe(|| rt.block_on(run_sequence(seq2, fault))));
                let outcome = match outcome {
                    Ok(o) => o,
                    Err(_) if fault != Fault::None => Ok(false),
                    Err(_) => Err("the harness panicked without a store fault".to_string()),
                };
                match outcome {
                    Ok(true) => nontrivial += 1,
                    Ok(false) => {}
                    Err(e) => { fail = Some(format!("store fault={:?} inputs={:?} :: {}", fault, seq, e)); break 'outer; }
                }
                let mut p = 0;
                loop {
                    if p == len { break; }
                    idx[p] += 1;
                    if idx[p] < alphabet.len() { break; }
                    idx[p] = 0;
                    p += 1;
                }
                if p == len { break; }
            }
        }
    }
    println!("BX-SAMPLE fault=Put(2) [Link, Event, Event, Drain]");
    match fail {
        None => println!("BX-OBL write_task_persist::what_a_subscriber_sees_of_a_persistent_lane_was_accepted_by_the_store_first ok evaluations={} distinct={}", evaluations, nontrivial),
        Some(w) => println!("BX-FAIL write_task_persist::what_a_subscriber_sees_of_a_persistent_lane_was_accepted_by_the_store_first witness={}", w),
    }
}
