// BOUNDED contract check of the task that forwards the commands an agent itself sends to other lanes (runtime/swimos_runtime/
// src/agent/task/external_links/mod.rs: external_links_task and CommandOutput) -- property C14: such commands are forwarded
// once each, in order per target lane; nothing is dropped or merged on the way (commands here are NOT overwritable).
// (An async select loop with buffered writers: outside Verus/Kani; CommandOutput::write alone is the bx component
// `command_output`.) The real `external_links_task` runs as a tokio task; the harness plays the agent (sending numbered
// commands, small or larger than the 1 KiB channel to the endpoint) and the endpoint (which opens the channel when asked and
// reads -- or for a while does not read -- what is forwarded). One input at a time.
// Checked on EVERY sequence up to VERIF_BX_DEPTH over {small command to lane 0/1, big command to lane 0, drain}, followed by a
// final drain (lanes 0 and 1 share one endpoint and therefore one channel).
use super::*;
use futures::FutureExt;

#[derive(Clone, Copy, Debug)]
enum Op {
    Small(usize),
    Big(usize),
    Drain,
}
fn universe() -> Vec<Op> {
    vec![Op::Small(0), Op::Small(1), Op::Big(0), Op::Drain]
}
async fn settle() {
    for _ in 0..24 {
        tokio::task::yield_now().await;
    }
}

async fn run_sequence(seq: &[Op]) -> Result<(), String> {
    let (chan_tx, chan_rx) = mpsc::channel(CHAN_SIZE);
    let (links_tx, mut links_rx) = mpsc::channel(CHAN_SIZE);
    let state = LinksTaskState::new(links_tx);
    let config = LinksTaskConfig {
        buffer_size: BUFFER_SIZE,
        retry_strategy: RetryStrategy::interval(Duration::from_millis(100), Quantity::Finite(RETRY_LIMIT)),
        timeout_delay: Duration::from_secs(100_000),
    };
    let (fail_tx, _fail_rx) = mpsc::unbounded_channel();
    let failure_report = FailureReport::new(fail_tx);
    let task = tokio::spawn(external_links_task(ID, chan_rx, state, config, Some(failure_report)));
    let writer = register(&chan_tx).await;
    let mut sender = CommandSender::new(writer, Default::default());
    let mut endpoint: Option<RequestReader> = None;
    let mut sent: [Vec<String>; 2] = [vec![], vec![]];
    let mut got: [Vec<String>; 2] = [vec![], vec![]];
    let mut next = 1u32;
    let mut all: Vec<Op> = seq.to_vec();
    all.push(Op::Drain);
    for (step, op) in all.iter().enumerate() {
        match *op {
            Op::Small(t) | Op::Big(t) => {
                let n = next;
                next += 1;
                // a text body: the number, padded beyond four times the channel size for a big command
                let body = if let Op::Big(_) = op { format!("{n:0>4100}") } else { format!("c{n}") };
                send_command(&mut sender, t, body.clone(), false).await;
                sent[t].push(body);
            }
            Op::Drain => {
                let mut empty = 0;
                while empty < 6 {
                    // the endpoint opens the channel when it is asked to
                    if let Ok(req) = links_rx.try_recv() {
                        match req {
                            LinkRequest::Commander(CommanderRequest { key, promise, .. }) => {
                                if key != make_key(0) || endpoint.is_some() {
                                    return Err(format!("step {step}: unexpected channel request for {:?}", key));
                                }
                                let (tx, rx) = byte_channel::byte_channel(BUFFER_SIZE);
                                promise.send(Ok(tx)).map_err(|_| format!("step {step}: channel request dropped"))?;
                                endpoint = Some(RequestReader::new(rx, Default::default()));
                            }
                            LinkRequest::Downlink(_) => return Err(format!("step {step}: unexpected downlink request")),
                        }
                        empty = 0;
                        continue;
                    }
                    let item = match endpoint.as_mut() {
                        Some(r) => r.next().now_or_never(),
                        None => None,
                    };
                    match item {
                        Some(Some(Ok(RequestMessage { path, envelope, .. }))) => {
                            empty = 0;
                            let t = if path.lane.as_str() == "lane" { 0 } else { 1 };
                            match envelope {
                                Operation::Command(body) => {
                                    let text = String::from_utf8_lossy(body.as_ref()).trim_matches('"').to_string();
                                    got[t].push(text);
                                }
                                ow => return Err(format!("step {step}: unexpected frame {:?}", ow)),
                            }
                        }
                        Some(Some(Err(e))) => return Err(format!("step {step}: bad frame {e}")),
                        Some(None) => return Err(format!("step {step}: the channel to the endpoint was closed")),
                        None => {
                            empty += 1;
                            settle().await;
                        }
                    }
                }
                // quiescent and drained: every command has been forwarded exactly once, in order per lane
                for t in 0..2 {
                    if got[t] != sent[t] {
                        let show = |v: &Vec<String>| v.iter().map(|s| if s.len() > 12 { format!("big#{}", s.trim_start_matches('0')) } else { s.clone() }).collect::<Vec<_>>();
                        return Err(format!("step {step}: lane {t} was sent {:?} but the endpoint received {:?}", show(&sent[t]), show(&got[t])));
                    }
                }
            }
        }
        settle().await;
        if task.is_finished() {
            return Err(format!("step {step}: the links task stopped"));
        }
    }
    task.abort();
    Ok(())
}

#[test]
fn external_links_contract() {
    let depth: usize = std::env::var("VERIF_BX_DEPTH").ok().and_then(|s| s.parse().ok()).unwrap_or(5);
    let ops = universe();
    let rt = tokio::runtime::Builder::new_current_thread().enable_time().build().expect("runtime");
    let mut evaluations = 0usize;
    let mut failure: Option<String> = None;
    let mut idx = vec![0usize; depth];
    'outer: for len in 1..=depth {
        idx.iter_mut().for_each(|i| *i = 0);
        loop {
            let seq: Vec<Op> = idx[..len].iter().map(|i| ops[*i]).collect();
            evaluations += 1;
            if let Err(e) = rt.block_on(run_sequence(&seq)) {
                failure = Some(format!("{:?} => {}", seq, e));
                break 'outer;
            }
            let mut k = 0;
            loop {
                if k == len {
                    break;
                }
                idx[k] += 1;
                if idx[k] < ops.len() {
                    break;
                }
                idx[k] = 0;
                k += 1;
            }
            if k == len {
                break;
            }
        }
    }
    println!("BX-SAMPLE depth={depth} inputs {{small command to lane 0, small command to lane 1, big command to lane 0, drain}}; e.g. [Big(0), Drain, Big(0), Small(0), Drain]");
    match failure {
        None => println!("BX-OBL external_links::agent_commands_forwarded_once_each_in_order ok evaluations={evaluations} distinct={evaluations}"),
        Some(w) => {
            println!("BX-FAIL external_links::agent_commands_forwarded_once_each_in_order witness={w}");
            panic!("contract violated");
        }
    }
}
