// BOUNDED contract check of CommandOutput / CmdChannelWriter / LaneBuffer
// (runtime/swimos_runtime/src/agent/task/external_links/mod.rs) -- property C14, third sentence.
// `CommandOutput::write` returns `impl Future`, iterates `dirty.drain(..)` and matches with or-patterns and guards:
// outside what the installed Verus accepts, and it is built on std HashMap (outside what Kani finishes). So the contract
// is checked natively on EVERY operation sequence up to VERIF_BX_DEPTH over:
//   targets {/n:a, /n:b}, bodies {"x", "yy"}, overwrite_permitted {false, true}, plus a complete write cycle.
// Contract (abstract model = per-target list of (body, overwritable) records + dirty order):
//   append: an overwritable last record of that target is replaced, otherwise the record is appended;
//   write:  the bytes handed to the channel are exactly the dirty targets' records, in dirty order, and nothing else;
//           afterwards nothing is pending.
use super::*;
use futures::FutureExt;
use tokio::io::AsyncReadExt;

const ID: Uuid = Uuid::from_u128(0x1234);

#[derive(Clone, Copy, Debug)]
enum Op {
    Append(usize, usize, bool),
    WriteCycle,
}

fn ops() -> Vec<Op> {
    let mut v = vec![Op::WriteCycle];
    for t in 0..2 {
        for b in 0..2 {
            for ow in [false, true] {
                v.push(Op::Append(t, b, ow));
            }
        }
    }
    v
}

fn addr(t: usize) -> RelativeAddress<Text> {
    RelativeAddress::text("/n", if t == 0 { "a" } else { "b" })
}
fn body(b: usize) -> &'static [u8] {
    if b == 0 {
        b"x"
    } else {
        b"yy"
    }
}
fn frame(t: usize, b: usize) -> Vec<u8> {
    let key = addr(t);
    let message = RequestMessage::command(ID, key.borrow_parts::<str>(), body(b));
    let mut buf = BytesMut::new();
    let mut enc = RawRequestMessageEncoder;
    enc.encode(message, &mut buf).expect("infallible");
    buf.to_vec()
}

#[derive(Default, Clone)]
struct Model {
    recs: [Vec<(usize, bool)>; 2],
    dirty: Vec<usize>,
}
impl Model {
    fn append(&mut self, t: usize, b: usize, ow: bool) {
        if let Some((_, true)) = self.recs[t].last() {
            self.recs[t].pop();
        }
        self.recs[t].push((b, ow));
        self.dirty.push(t);
    }
    fn write(&mut self) -> Vec<u8> {
        let mut out = vec![];
        let dirty = std::mem::take(&mut self.dirty);
        for t in dirty {
            for (b, _) in std::mem::take(&mut self.recs[t]) {
                out.extend_from_slice(&frame(t, b));
            }
        }
        out
    }
}

fn run_sequence(rt: &tokio::runtime::Runtime, seq: &[Op]) -> Result<usize, String> {
    let (tx, mut rx) = byte_channel(NonZeroUsize::new(1 << 16).unwrap());
    let mut output = CommandOutput::new(ID, RetryStrategy::none());
    output.replace_writer(CmdChannelWriter::new(tx));
    let mut model = Model::default();
    let mut writes = 0;
    for (step, op) in seq.iter().enumerate() {
        match *op {
            Op::Append(t, b, ow) => {
                output.append(&addr(t), body(b), ow);
                model.append(t, b, ow);
            }
            Op::WriteCycle => {
                let expected = model.write();
                match output.write() {
                    None => {
                        if !expected.is_empty() {
                            return Err(format!("step {step}: write() scheduled nothing although {} bytes are owed", expected.len()));
                        }
                    }
                    Some(fut) => {
                        let writer = rt.block_on(fut).map_err(|e| format!("step {step}: write failed: {e}"))?;
                        let mut got = vec![0u8; 1 << 16];
                        let n = match rx.read(&mut got).now_or_never() {
                            Some(Ok(n)) => n,
                            Some(Err(e)) => return Err(format!("step {step}: read failed: {e}")),
                            None => 0,
                        };
                        got.truncate(n);
                        if got != expected {
                            return Err(format!(
                                "step {step}: channel received {} bytes, the dirty targets' records are {} bytes (received {:?}, owed {:?})",
                                got.len(), expected.len(), String::from_utf8_lossy(&got), String::from_utf8_lossy(&expected)
                            ));
                        }
                        output.replace_writer(writer);
                        writes += 1;
                    }
                }
            }
        }
    }
    Ok(writes)
}

#[test]
fn command_output_contract() {
    let depth: usize = std::env::var("VERIF_BX_DEPTH").ok().and_then(|s| s.parse().ok()).unwrap_or(4);
    let rt = tokio::runtime::Builder::new_current_thread().enable_all().build().unwrap();
    let ops = ops();
    let mut evaluations = 0usize;
    let mut nontrivial = 0usize;
    let mut idx = vec![0usize; depth];
    let mut failure: Option<String> = None;
    'outer: for len in 1..=depth {
        idx.iter_mut().for_each(|i| *i = 0);
        loop {
            let seq: Vec<Op> = idx[..len].iter().map(|i| ops[*i]).collect();
            evaluations += 1;
            match run_sequence(&rt, &seq) {
                Ok(w) => {
                    if w > 0 {
                        nontrivial += 1;
                    }
                }
                Err(e) => {
                    failure = Some(format!("{:?} => {}", seq, e));
                    break 'outer;
                }
            }
            // next index vector
            let mut k = 0;
            loop {
                if k == len {
                    break;
                }
                idx[k] += 1;
                if idx[k] < ops.len() {
                    break;
                }
                idx[k] = 0;
                k += 1;
            }
            if k == len {
                break;
            }
        }
    }
    println!("BX-SAMPLE depth={depth} universe=2 targets x 2 bodies x overwrite flag + write cycle; e.g. [Append(0,0,false), WriteCycle, Append(0,1,true), Append(1,0,false), WriteCycle]");
    match failure {
        None => println!("BX-OBL write::sends_exactly_the_dirty_records_once ok evaluations={evaluations} distinct={nontrivial}"),
        Some(w) => {
            println!("BX-FAIL write::sends_exactly_the_dirty_records_once witness={w}");
            panic!("contract violated");
        }
    }
}
