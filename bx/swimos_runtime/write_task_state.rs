// BOUNDED contract check of the write-task state of the agent runtime (runtime/swimos_runtime/src/agent/task/mod.rs:
// WriteTaskState::{handle_task_message (coordination arms), handle_event, replace, remove_remote, unlink_all}) composed with
// the real Links, RemoteTracker and Uplinks -- properties C04 (link state machine, no fabricated frames), C01, C14, C20.
// These functions return lazy `impl Iterator`s built from closures over several `&mut` fields and sit on std HashMaps: outside
// the installed Verus and Kani. The per-component contracts ARE proved (units uplinks, backpressure) or bounded-checked (links);
// this harness checks their composition on EVERY operation sequence up to VERIF_BX_DEPTH over two remotes {A, B} and two lanes
// {v = value lane, s = supply lane}. The harness plays the socket writer: a WriteTask handed out is "in flight" until the
// Complete(remote) operation interprets its action exactly as perform_write does (proved in unit uplinks) and gives the writer back.
//
// Contract, per (remote, lane), over the frames in the order they were written to that remote:
//   FSM:      the frames form  ( linked+  (event | synced)*  unlinked )*   where a repeated `linked` is only accepted as the answer
//             to an explicit repeated link request; events/synced never outside a link; after unlink_all every open link of an
//             attached remote has been closed by exactly one unlinked;
//   lane:     a frame is written under its own lane's name;
//   bodies:   value lane: the events of a link session are an in-order subsequence of the bodies the lane produced for that remote
//             during that session, and a session still open at quiescence ends with the newest body; supply lane: exactly the
//             produced bodies, in order, each once (a prefix of them if the session was closed meanwhile);
//   at most one write task per remote is in flight; the link registry agrees with the model at every step;
//   counters: the events counted for a lane equal the events addressed to its links.
use super::*;
use crate::agent::reporting::UplinkReporter;
use crate::agent::task::write_fut::WriteAction;
use crate::backpressure::BackpressureStrategy;
use std::collections::BTreeMap;
use std::num::NonZeroUsize;
use swimos_utilities::byte_channel::byte_channel;

const RA: Uuid = Uuid::from_u128(1);
const RB: Uuid = Uuid::from_u128(2);
const LANES: [&str; 2] = ["v", "s"];

#[derive(Clone, Copy, Debug)]
enum Op {
    Link(usize, usize),
    Unlink(usize, usize),
    Broadcast(usize),
    Targeted(usize, usize),
    SyncedTo(usize, usize),
    Complete(usize),
    RemoveRemote(usize),
    UnknownLane(usize),
}
fn rid(r: usize) -> Uuid {
    if r == 0 {
        RA
    } else {
        RB
    }
}
fn ridx(u: Uuid) -> usize {
    if u == RA {
        0
    } else {
        1
    }
}
fn ops() -> Vec<Op> {
    let mut v = vec![];
    for r in 0..2 {
        v.push(Op::Complete(r));
        v.push(Op::RemoveRemote(r));
        v.push(Op::UnknownLane(r));
        for l in 0..2 {
            v.push(Op::Link(r, l));
            v.push(Op::Unlink(r, l));
            v.push(Op::Targeted(l, r));
            v.push(Op::SyncedTo(l, r));
        }
    }
    for l in 0..2 {
        v.push(Op::Broadcast(l));
    }
    v
}

#[derive(Debug, Clone, PartialEq)]
enum Frame {
    Linked,
    Synced,
    Unlinked,
    Event(Vec<u8>),
}

#[derive(Default, Debug, Clone)]
struct Session {
    produced: Vec<Vec<u8>>,
    closed: bool,
    extra_linked_allowed: usize,
    synced_owed: usize,
}

struct Harness {
    state: WriteTaskState,
    init: Initialization,
    store: StoreDisabled,
    lane_ids: [u64; 2],
    attached: [bool; 2],
    in_flight: [Option<WriteTask>; 2],
    written: [Vec<(String, Frame)>; 2],
    // model
    sessions: BTreeMap<(usize, usize), Vec<Session>>,
    counter: u64,
    lane_events: [u64; 2],
    counted: [u64; 2],
    readers: Vec<crate::agent::reporting::UplinkReportReader>,
    agg_reader: crate::agent::reporting::UplinkReportReader,
    _keep: Vec<ByteReader>,
}

impl Harness {
    fn new() -> Harness {
        // introspection on: an aggregate reporter plus one reporter per lane
        let agg = UplinkReporter::default();
        let agg_reader = agg.reader();
        let mut state = WriteTaskState::new(Uuid::from_u128(99), Text::new("/node"), Some(agg));
        let mut readers = vec![];
        let mut lane_ids = [0u64; 2];
        for (i, n) in LANES.iter().enumerate() {
            let rep = UplinkReporter::default();
            readers.push(rep.reader());
            lane_ids[i] = state.register_lane(Text::new(n), Some(rep));
        }
        let mut h = Harness {
            state,
            init: Initialization::new(None, Duration::from_secs(1)),
            store: StoreDisabled,
            lane_ids,
            attached: [false; 2],
            in_flight: [None, None],
            written: [vec![], vec![]],
            sessions: BTreeMap::new(),
            counter: 0,
            lane_events: [0; 2],
            counted: [0; 2],
            readers,
            agg_reader,
            _keep: vec![],
        };
        for r in 0..2 {
            let (tx, rx) = byte_channel(NonZeroUsize::new(4096).unwrap());
            let (ctx, _crx) = promise::promise();
            h._keep.push(rx);
            let res = futures::executor::block_on(h.state.handle_task_message(
                WriteTaskMessage::Remote { id: rid(r), writer: tx, completion: ctx, on_attached: None },
                &h.init,
                &h.store,
            ));
            assert!(matches!(res, TaskMessageResult::AddPruneTimeout(_)));
            h.attached[r] = true;
        }
        h
    }
    fn linked(&self, r: usize, l: usize) -> bool {
        self.sessions.get(&(r, l)).and_then(|s| s.last()).map(|s| !s.closed).unwrap_or(false)
    }
    fn hold(&mut self, t: WriteTask, step: usize) -> Result<(), String> {
        let r = ridx(t.sender.remote_id());
        if self.in_flight[r].is_some() {
            return Err(format!("step {step}: a second write task was scheduled for remote {r} while one is in flight"));
        }
        if !self.attached[r] {
            return Err(format!("step {step}: a write task was scheduled for the removed remote {r}"));
        }
        self.in_flight[r] = Some(t);
        Ok(())
    }
    fn result(&mut self, res: TaskMessageResult<()>, step: usize) -> Result<(), String> {
        match res {
            TaskMessageResult::ScheduleWrite { write, .. } => self.hold(write, step),
            _ => Ok(()),
        }
    }
    fn body(&mut self) -> Vec<u8> {
        self.counter += 1;
        format!("b{}", self.counter).into_bytes()
    }
    // the harness is the socket writer: interpret the action as perform_write does, then hand the writer back
    fn complete(&mut self, r: usize, step: usize) -> Result<(), String> {
        if let Some(WriteTask { sender, mut buffer, action }) = self.in_flight[r].take() {
            let lane = sender.lane.clone();
            let out = &mut self.written[r];
            match action {
                WriteAction::Event => out.push((lane, Frame::Event(buffer.to_vec()))),
                WriteAction::ValueSynced(b) => {
                    if b {
                        out.push((lane.clone(), Frame::Event(buffer.to_vec())));
                    }
                    out.push((lane, Frame::Synced));
                }
                WriteAction::MapSynced(q) => {
                    if let Some(mut q) = q {
                        while q.has_data() {
                            q.prepare_write(&mut buffer);
                            out.push((lane.clone(), Frame::Event(buffer.to_vec())));
                        }
                    }
                    out.push((lane, Frame::Synced));
                }
                WriteAction::Special(SpecialAction::Linked(_)) => out.push((lane, Frame::Linked)),
                WriteAction::Special(SpecialAction::Unlinked { .. }) => out.push((lane, Frame::Unlinked)),
                WriteAction::Special(SpecialAction::LaneNotFound { .. }) => out.push((lane, Frame::Unlinked)),
            }
            if self.attached[r] {
                if let Some(next) = self.state.replace(sender, buffer) {
                    self.hold(next, step)?;
                }
            }
        }
        Ok(())
    }
    fn apply(&mut self, op: Op, step: usize) -> Result<(), String> {
        match op {
            Op::Link(r, l) => {
                let res = futures::executor::block_on(self.state.handle_task_message(
                    WriteTaskMessage::Coord(RwCoordinationMessage::Link { origin: rid(r), lane: Text::new(LANES[l]) }),
                    &self.init,
                    &self.store,
                ));
                if self.attached[r] {
                    if self.linked(r, l) {
                        self.sessions.get_mut(&(r, l)).unwrap().last_mut().unwrap().extra_linked_allowed += 1;
                    } else {
                        self.sessions.entry((r, l)).or_default().push(Session::default());
                    }
                }
                self.result(res, step)
            }
            Op::Unlink(r, l) => {
                let res = futures::executor::block_on(self.state.handle_task_message(
                    WriteTaskMessage::Coord(RwCoordinationMessage::Unlink { origin: rid(r), lane: Text::new(LANES[l]) }),
                    &self.init,
                    &self.store,
                ));
                if self.linked(r, l) {
                    self.sessions.get_mut(&(r, l)).unwrap().last_mut().unwrap().closed = true;
                }
                self.result(res, step)
            }
            Op::UnknownLane(r) => {
                let res = futures::executor::block_on(self.state.handle_task_message(
                    WriteTaskMessage::Coord(RwCoordinationMessage::UnknownLane {
                        origin: rid(r),
                        path: RelativeAddress::new(Text::new("/node"), Text::new("nosuch")),
                    }),
                    &self.init,
                    &self.store,
                ));
                self.result(res, step)
            }
            Op::Broadcast(l) => {
                let b = self.body();
                let resp = if l == 0 { UplinkResponse::Value(Bytes::from(b.clone())) } else { UplinkResponse::Supply(Bytes::from(b.clone())) };
                for r in 0..2 {
                    if self.linked(r, l) {
                        self.sessions.get_mut(&(r, l)).unwrap().last_mut().unwrap().produced.push(b.clone());
                        self.lane_events[l] += 1;
                    }
                }
                let tasks: Vec<WriteTask> = self.state.handle_event(self.lane_ids[l], LaneData::new(None, resp)).collect();
                for t in tasks {
                    self.hold(t, step)?;
                }
                Ok(())
            }
            Op::Targeted(l, r) | Op::SyncedTo(l, r) => {
                // a lane only answers remotes that talked to it: skip for a remote that is gone
                if !self.attached[r] {
                    return Ok(());
                }
                let resp = if let Op::SyncedTo(..) = op {
                    UplinkResponse::Synced(if l == 0 { UplinkKind::Value } else { UplinkKind::Supply })
                } else {
                    let b = self.body();
                    if !self.linked(r, l) {
                        self.sessions.entry((r, l)).or_default().push(Session::default());
                    }
                    self.sessions.get_mut(&(r, l)).unwrap().last_mut().unwrap().produced.push(b.clone());
                    if l == 0 {
                        UplinkResponse::Value(Bytes::from(b))
                    } else {
                        UplinkResponse::Supply(Bytes::from(b))
                    }
                };
                if let Op::SyncedTo(..) = op {
                    if !self.linked(r, l) {
                        self.sessions.entry((r, l)).or_default().push(Session::default());
                    }
                    self.sessions.get_mut(&(r, l)).unwrap().last_mut().unwrap().synced_owed += 1;
                }
                self.lane_events[l] += 1;
                let tasks: Vec<WriteTask> = self.state.handle_event(self.lane_ids[l], LaneData::new(Some(rid(r)), resp)).collect();
                for t in tasks {
                    self.hold(t, step)?;
                }
                Ok(())
            }
            Op::Complete(r) => self.complete(r, step),
            Op::RemoveRemote(r) => {
                if self.attached[r] {
                    self.state.remove_remote(rid(r), DisconnectionReason::ChannelClosed);
                    self.attached[r] = false;
                    // the socket is gone: whatever was in flight is lost with it
                    self.in_flight[r] = None;
                    for l in 0..2 {
                        if self.linked(r, l) {
                            self.sessions.get_mut(&(r, l)).unwrap().last_mut().unwrap().closed = true;
                        }
                    }
                }
                Ok(())
            }
        }
    }
    fn check_registry(&mut self, step: usize) -> Result<(), String> {
        for l in 0..2 {
            let mut n = 0;
            for r in 0..2 {
                let model = self.linked(r, l) && self.attached[r];
                if self.state.links.is_linked(rid(r), self.lane_ids[l]) != model {
                    return Err(format!("step {step}: the link registry says linked({r},{}) = {}, the model says {}", LANES[l], !model, model));
                }
                if model {
                    n += 1;
                }
            }
            let snap = self.readers[l].snapshot().ok_or_else(|| format!("step {step}: reporter of lane {} dropped", LANES[l]))?;
            // (a snapshot resets the event counter: accumulate what it reported)
            self.counted[l] += snap.event_count;
            if snap.link_count != n {
                return Err(format!("step {step}: lane {} reports {} links, {} remotes are linked", LANES[l], snap.link_count, n));
            }
        }
        Ok(())
    }
    fn finish(&mut self, seq_len: usize) -> Result<(), String> {
        // shutdown: close every open link, then let the writers drain
        let tasks: Vec<WriteTask> = self.state.unlink_all().collect();
        for t in tasks {
            self.hold(t, seq_len)?;
        }
        for (_, ss) in self.sessions.iter_mut() {
            if let Some(s) = ss.last_mut() {
                s.closed = true;
            }
        }
        let mut guard = 0;
        while self.in_flight.iter().any(|t| t.is_some()) {
            guard += 1;
            if guard > 1000 {
                return Err("writers never drain".into());
            }
            for r in 0..2 {
                self.complete(r, seq_len)?;
            }
        }
        // per (remote, lane) frame language and bodies
        for r in 0..2 {
            if !self.attached[r] {
                continue;
            }
            for l in 0..2 {
                let frames: Vec<&Frame> = self.written[r].iter().filter(|(lane, _)| lane == LANES[l]).map(|(_, f)| f).collect();
                let sessions = self.sessions.get(&(r, l)).cloned().unwrap_or_default();
                let mut si: isize = -1;
                let mut open = false;
                let mut delivered: Vec<Vec<Vec<u8>>> = vec![];
                let mut extra = 0usize;
                let mut synced_seen = 0usize;
                for f in frames {
                    match f {
                        Frame::Linked => {
                            if open {
                                extra += 1;
                                if extra > sessions[si as usize].extra_linked_allowed {
                                    return Err(format!("remote {r} lane {}: `linked` written twice without an unlinked in between or a repeated link request: {:?}", LANES[l], self.written[r]));
                                }
                            } else {
                                si += 1;
                                open = true;
                                extra = 0;
                                synced_seen = 0;
                                delivered.push(vec![]);
                                if si as usize >= sessions.len() {
                                    return Err(format!("remote {r} lane {}: a `linked` was written that no link request or targeted response accounts for: {:?}", LANES[l], self.written[r]));
                                }
                            }
                        }
                        Frame::Event(b) => {
                            if !open {
                                return Err(format!("remote {r} lane {}: event {:?} written outside a link: {:?}", LANES[l], String::from_utf8_lossy(b), self.written[r]));
                            }
                            delivered[si as usize].push(b.clone());
                        }
                        Frame::Synced => {
                            if !open {
                                return Err(format!("remote {r} lane {}: synced written outside a link: {:?}", LANES[l], self.written[r]));
                            }
                            synced_seen += 1;
                            if synced_seen > sessions[si as usize].synced_owed {
                                return Err(format!("remote {r} lane {}: more synced markers than sync requests: {:?}", LANES[l], self.written[r]));
                            }
                        }
                        Frame::Unlinked => {
                            if !open {
                                return Err(format!("remote {r} lane {}: unlinked written outside a link: {:?}", LANES[l], self.written[r]));
                            }
                            open = false;
                        }
                    }
                }
                if open {
                    return Err(format!("remote {r} lane {}: the agent stopped but the link was never closed with unlinked: {:?}", LANES[l], self.written[r]));
                }
                if (si + 1) as usize != sessions.len() {
                    return Err(format!("remote {r} lane {}: {} link sessions were opened but {} `linked` frames were written: {:?}", LANES[l], sessions.len(), si + 1, self.written[r]));
                }
                for (k, s) in sessions.iter().enumerate() {
                    let d = &delivered[k];
                    // in-order subsequence of what the lane produced for this remote in this session
                    let mut it = s.produced.iter();
                    for b in d {
                        if !it.any(|p| p == b) {
                            return Err(format!("remote {r} lane {} session {k}: event {:?} is not an in-order body the lane produced for it ({:?}); written: {:?}", LANES[l], String::from_utf8_lossy(b), s.produced.iter().map(|x| String::from_utf8_lossy(x).to_string()).collect::<Vec<_>>(), self.written[r]));
                        }
                    }
                    if l == 1 {
                        // supply lane: nothing may be skipped (only a tail may be lost to an unlink)
                        if d.as_slice() != &s.produced[..d.len()] {
                            return Err(format!("remote {r} supply lane session {k}: delivered {:?} is not a prefix of the produced items {:?}", d, s.produced));
                        }
                    }
                }
            }
            // lane-not-found answers carry the requested (unknown) lane name and are plain unlinked frames
            for (lane, f) in &self.written[r] {
                if !LANES.contains(&lane.as_str()) && lane != "nosuch" {
                    return Err(format!("remote {r}: a frame was written under the unknown lane name {:?}", lane));
                }
                if lane == "nosuch" && *f != Frame::Unlinked {
                    return Err(format!("remote {r}: lane-not-found was answered by {:?}", f));
                }
            }
        }
        Ok(())
    }
}

fn run_sequence(seq: &[Op]) -> Result<(), String> {
    let mut h = Harness::new();
    for (step, op) in seq.iter().enumerate() {
        h.apply(*op, step)?;
        h.check_registry(step)?;
    }
    // quiescence checks for open value sessions: drain first, then the newest body must have been delivered
    let mut guard = 0;
    while h.in_flight.iter().any(|t| t.is_some()) {
        guard += 1;
        if guard > 1000 {
            return Err("writers never drain".into());
        }
        for r in 0..2 {
            h.complete(r, seq.len())?;
        }
    }
    for r in 0..2 {
        if !h.attached[r] {
            continue;
        }
        for l in 0..2 {
            if let Some(s) = h.sessions.get(&(r, l)).and_then(|s| s.last()) {
                if !s.closed {
                    if let Some(newest) = s.produced.last() {
                        let last_event = h.written[r].iter().rev().find_map(|(lane, f)| match f {
                            Frame::Event(b) if lane == LANES[l] => Some(b.clone()),
                            _ => None,
                        });
                        if last_event.as_ref() != Some(newest) {
                            return Err(format!("quiescent: remote {r} lane {} last received {:?} but the lane's newest body for it is {:?}; written {:?}", LANES[l], last_event.map(|b| String::from_utf8_lossy(&b).to_string()), String::from_utf8_lossy(newest), h.written[r]));
                        }
                    }
                }
            }
        }
    }
    // event counters: everything addressed to a link was counted for its lane and for the agent
    let agg = h.agg_reader.snapshot().ok_or("aggregate reporter dropped")?;
    if agg.event_count != h.lane_events[0] + h.lane_events[1] {
        return Err(format!("the agent counted {} events, {} were addressed to links", agg.event_count, h.lane_events[0] + h.lane_events[1]));
    }
    for l in 0..2 {
        let snap = h.readers[l].snapshot().ok_or("reporter dropped")?;
        if snap.event_count + h.counted[l] != h.lane_events[l] {
            return Err(format!("lane {} counted {} events, {} were addressed to its links", LANES[l], snap.event_count + h.counted[l], h.lane_events[l]));
        }
    }
    h.finish(seq.len())
}

#[test]
fn write_task_state_contract() {
    let depth: usize = std::env::var("VERIF_BX_DEPTH").ok().and_then(|s| s.parse().ok()).unwrap_or(4);
    let ops = ops();
    let mut evaluations = 0usize;
    let mut failure: Option<String> = None;
    let mut idx = vec![0usize; depth];
    'outer: for len in 1..=depth {
        idx.iter_mut().for_each(|i| *i = 0);
        loop {
            let seq: Vec<Op> = idx[..len].iter().map(|i| ops[*i]).collect();
            evaluations += 1;
            if let Err(e) = run_sequence(&seq) {
                failure = Some(format!("{:?} => {}", seq, e));
                break 'outer;
            }
            let mut k = 0;
            loop {
                if k == len {
                    break;
                }
                idx[k] += 1;
                if idx[k] < ops.len() {
                    break;
                }
                idx[k] = 0;
                k += 1;
            }
            if k == len {
                break;
            }
        }
    }
    println!("BX-SAMPLE depth={depth} universe={} operations over 2 remotes x (value lane, supply lane); e.g. [Targeted(0,0), Link(1,0), Broadcast(0), Complete(0), Unlink(0,0)]", ops.len());
    match failure {
        None => println!("BX-OBL write_task_state::per_link_frame_language_bodies_registry_and_counters ok evaluations={evaluations} distinct={evaluations}"),
        Some(w) => {
            println!("BX-FAIL write_task_state::per_link_frame_language_bodies_registry_and_counters witness={w}");
            panic!("contract violated");
        }
    }
}
