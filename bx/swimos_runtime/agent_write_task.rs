// BOUNDED contract check of the agent runtime's write task as a whole (runtime/swimos_runtime/src/agent/task/mod.rs:
// write_task -- the select loop around WriteTaskState and, above all, its shutdown epilogue) -- property C04: every uplink
// follows linked (event | synced)* unlinked, and when the agent stops every open link is closed with unlinked.
// (An async select loop over many channels: outside Verus/Kani; WriteTaskState itself is the bx component write_task_state,
// the uplink scheduler the Verus unit uplinks.) The real `write_task` runs against the crate's fake agent (tests/write.rs);
// the harness plays two remotes: they attach, link to / unlink from the value and the supply lane, the lanes produce numbered
// events, and a remote may silently go away (its reader is dropped without unlinking). Finally the agent is stopped.
// EVERY sequence up to VERIF_BX_DEPTH is run, one input at a time, and every frame each live remote received is checked.
use super::*;
use crate::agent::task::tests::Instructions as Instr;


#[derive(Clone, Copy, Debug)]
enum Op {
    Attach(usize),
    Link(usize, usize),
    Unlink(usize, usize),
    Event(usize),
    Gone(usize),
}
const LANES: [&str; 2] = [VAL_LANE, SUPPLY_LANE];
fn universe() -> Vec<Op> {
    let mut v = vec![];
    for r in 0..2 {
        v.push(Op::Attach(r));
        v.push(Op::Gone(r));
        for l in 0..2 {
            v.push(Op::Link(r, l));
            v.push(Op::Unlink(r, l));
        }
    }
    v.push(Op::Event(0));
    v.push(Op::Event(1));
    v
}
async fn settle() {
    for _ in 0..32 {
        tokio::task::yield_now().await;
    }
}
fn rid(r: usize) -> Uuid {
    if r == 0 {
        RID1
    } else {
        RID2
    }
}

// Ok(false): not a sequence the harness supports (e.g. link before attach)
async fn run_sequence(seq: Vec<Op>) -> Result<bool, String> {
    run_test_case(DEFAULT_TIMEOUT, |context| async move {
        let TestContext { stop_sender, messages_tx, read_voter: _read_voter, http_voter: _http_voter, vote_rx: _vote_rx, instr_tx, .. } = context;
        let instr_tx: Instr = instr_tx;
        let mut readers: [Option<RemoteReceiver>; 2] = [None, None];
        let mut attached = [false; 2];
        let mut gone = [false; 2];
        let mut linked = [[false; 2]; 2];
        let mut next_event = 1i32;
        for op in &seq {
            match *op {
                Op::Attach(r) => {
                    if attached[r] {
                        drop(stop_sender);
                        return Ok(false);
                    }
                    readers[r] = Some(attach_remote_and_wait(rid(r), &messages_tx).await);
                    attached[r] = true;
                }
                Op::Link(r, l) => {
                    if !attached[r] || gone[r] || linked[r][l] {
                        drop(stop_sender);
                        return Ok(false);
                    }
                    link_remote(rid(r), LANES[l], &messages_tx).await;
                    linked[r][l] = true;
                }
                Op::Unlink(r, l) => {
                    if !attached[r] || gone[r] || !linked[r][l] {
                        drop(stop_sender);
                        return Ok(false);
                    }
                    unlink_remote(rid(r), LANES[l], &messages_tx).await;
                    linked[r][l] = false;
                }
                Op::Event(l) => {
                    let v = next_event;
                    next_event += 1;
                    if l == 0 {
                        instr_tx.value_event(LANES[0], v);
                    } else {
                        instr_tx.supply_event(LANES[1], v);
                    }
                }
                Op::Gone(r) => {
                    if !attached[r] || gone[r] {
                        drop(stop_sender);
                        return Ok(false);
                    }
                    readers[r] = None;
                    gone[r] = true;
                }
            }
            settle().await;
        }
        // the agent stops
        stop_sender.trigger();
        for r in 0..2 {
            let Some(reader) = readers[r].take() else { continue };
            let frames = match tokio::time::timeout(Duration::from_secs(4), reader.inner.collect::<Vec<_>>()).await {
                Ok(f) => f,
                Err(_) => return Err(format!("remote {r}: its channel was not closed after the agent stopped")),
            };
            // per lane: linked (event | synced)* unlinked, repeated; closed at the end
            let mut open = [false; 2];
            let mut last_event = [0i32; 2];
            for f in frames {
                let msg = f.map_err(|e| format!("remote {r}: bad frame {e}"))?;
                let l = match LANES.iter().position(|n| *n == msg.path.lane.as_str()) {
                    Some(l) => l,
                    None => return Err(format!("remote {r}: frame for unknown lane {}", msg.path.lane)),
                };
                match msg.envelope {
                    Notification::Linked => {
                        if open[l] {
                            return Err(format!("remote {r}: second linked on {} without an unlinked in between", LANES[l]));
                        }
                        open[l] = true;
                    }
                    Notification::Unlinked(_) => {
                        if !open[l] {
                            return Err(format!("remote {r}: unlinked on {} outside a link", LANES[l]));
                        }
                        open[l] = false;
                    }
                    Notification::Synced => {
                        if !open[l] {
                            return Err(format!("remote {r}: synced on {} outside a link", LANES[l]));
                        }
                    }
                    Notification::Event(body) => {
                        if !open[l] {
                            return Err(format!("remote {r}: event on {} outside a link", LANES[l]));
                        }
                        let n: i32 = std::str::from_utf8(body.as_ref()).map_err(|e| e.to_string())?.parse().map_err(|_| "bad event body".to_string())?;
                        if n <= last_event[l] {
                            return Err(format!("remote {r}: event {n} on {} after event {}", LANES[l], last_event[l]));
                        }
                        last_event[l] = n;
                    }
                }
            }
            for l in 0..2 {
                if open[l] {
                    return Err(format!("remote {r}: the agent stopped but the link to {} was never closed with unlinked", LANES[l]));
                }
            }
        }
        Ok(true)
    })
    .await
}

#[test]
fn agent_write_task_contract() {
    let depth: usize = std::env::var("VERIF_BX_DEPTH").ok().and_then(|s| s.parse().ok()).unwrap_or(5);
    let ops = universe();
    let rt = tokio::runtime::Builder::new_current_thread().enable_time().build().expect("runtime");
    let mut evaluations = 0usize;
    let mut nontrivial = 0usize;
    let mut failure: Option<String> = None;
    let mut idx = vec![0usize; depth];
    'outer: for len in 1..=depth {
        idx.iter_mut().for_each(|i| *i = 0);
        loop {
            let seq: Vec<Op> = idx[..len].iter().map(|i| ops[*i]).collect();
            // cheap pre-filter of unsupported sequences (the first input has to attach a remote)
            if matches!(seq[0], Op::Attach(_)) {
                evaluations += 1;
                match rt.block_on(run_sequence(seq.clone())) {
                    Ok(true) => nontrivial += 1,
                    Ok(false) => {}
                    Err(e) => {
                        failure = Some(format!("{:?} then stop => {}", seq, e));
                        break 'outer;
                    }
                }
            }
            let mut k = 0;
            loop {
                if k == len {
                    break;
                }
                idx[k] += 1;
                if idx[k] < ops.len() {
                    break;
                }
                idx[k] = 0;
                k += 1;
            }
            if k == len {
                break;
            }
        }
    }
    println!("BX-SAMPLE depth={depth} inputs {{attach remote 0/1, link/unlink remote x lane (value, supply), lane event, remote silently gone}} then stop; e.g. [Attach(0), Link(0,value), Attach(1), Link(1,supply), Gone(0)] then stop");
    match failure {
        None => println!("BX-OBL agent_write_task::frame_language_per_link_and_every_open_link_closed_on_stop ok evaluations={evaluations} distinct={nontrivial}"),
        Some(w) => {
            println!("BX-FAIL agent_write_task::frame_language_per_link_and_every_open_link_closed_on_stop witness={w}");
            panic!("contract violated");
        }
    }
}
