// BOUNDED contract check of the restart path of agent persistence (runtime/swimos_runtime/src/agent/store/mod.rs:
// StorePersistence::{put_value, apply_map, init_value_store, init_map_store}, ValueInit::initialize, MapInit::initialize)
// -- property C05: after a restart every persistent item comes back holding the last state handed to the store: a value as the
// last value (including a value whose bytes are empty), a map as exactly the entries implied by the operations handed over.
// (Boxed async initializers writing through a byte channel: outside Verus/Kani; put_value/apply_map themselves are proved in
// the Verus unit `persist`.) EVERY sequence of persist operations up to VERIF_BX_DEPTH over value bodies {"", "v", "ww"} and
// map operations over keys {"", "k"}, values {"", "v"} is handed to the store through the real StorePersistence; then the
// real initializers replay the store into a byte channel, the frames are decoded the way the agent decodes them, and the
// restored state is compared with the fold of the operations.
use super::*;
use std::collections::BTreeMap;

#[derive(Clone, Copy, Debug)]
enum Op {
    Put(usize),
    Update(usize, usize),
    Remove(usize),
    Clear,
}
const BODIES: [&[u8]; 3] = [b"", b"v", b"ww"];
const KEYS: [&[u8]; 2] = [b"", b"k"];
const VALS: [&[u8]; 2] = [b"", b"v"];
fn ops() -> Vec<Op> {
    let mut v = vec![Op::Clear];
    for b in 0..3 {
        v.push(Op::Put(b));
    }
    for k in 0..2 {
        v.push(Op::Remove(k));
        for x in 0..2 {
            v.push(Op::Update(k, x));
        }
    }
    v
}

async fn run_sequence(seq: &[Op]) -> Result<(), String> {
    let store = FakeStore::new(None, Default::default());
    let mut persistence = StorePersistence(store.clone());
    let mut value: Option<Vec<u8>> = None;
    let mut map: BTreeMap<Vec<u8>, Vec<u8>> = BTreeMap::new();
    for (step, op) in seq.iter().enumerate() {
        let r = match *op {
            Op::Put(b) => {
                value = Some(BODIES[b].to_vec());
                persistence.put_value(Id::Value, BODIES[b])
            }
            Op::Update(k, x) => {
                map.insert(KEYS[k].to_vec(), VALS[x].to_vec());
                persistence.apply_map(Id::Map, &MapOperation::Update { key: KEYS[k], value: VALS[x] })
            }
            Op::Remove(k) => {
                map.remove(KEYS[k]);
                persistence.apply_map(Id::Map, &MapOperation::<&[u8], &[u8]>::Remove { key: KEYS[k] })
            }
            Op::Clear => {
                map.clear();
                persistence.apply_map(Id::Map, &MapOperation::<&[u8], &[u8]>::Clear)
            }
        };
        r.map_err(|e| format!("step {step}: the store refused the operation: {e}"))?;
    }
    // restart: a fresh persistence over what reached the store
    let persistence = StorePersistence(store.clone());
    // value item
    {
        let init = persistence.init_value_store(Id::Value).ok_or("no value initializer")?;
        let (mut tx, mut rx) = byte_channel(BUFFER_SIZE);
        let init_task = init.initialize(&mut tx);
        let recv_task = async {
            let mut framed = FramedRead::new(&mut rx, RawValueLaneRequestDecoder::default());
            let mut restored: Option<Vec<u8>> = None;
            loop {
                match framed.next().await {
                    Some(Ok(LaneRequest::Command(body))) => {
                        if restored.is_some() {
                            return Err("two values were replayed".to_string());
                        }
                        restored = Some(body.as_ref().to_vec());
                    }
                    Some(Ok(LaneRequest::InitComplete)) => return Ok(restored),
                    ow => return Err(format!("unexpected frame {:?}", ow)),
                }
            }
        };
        let (result, restored) = join(init_task, recv_task).await;
        result.map_err(|e| format!("the value initializer failed: {e}"))?;
        let restored = restored?;
        if restored != value {
            return Err(format!("after the restart the value item is given {:?}; the last value handed to the store was {:?}", restored, value));
        }
    }
    // map item
    {
        let init = persistence.init_map_store(Id::Map).ok_or("no map initializer")?;
        let (mut tx, mut rx) = byte_channel(BUFFER_SIZE);
        let init_task = init.initialize(&mut tx);
        let recv_task = async {
            let mut framed = FramedRead::new(&mut rx, RawMapLaneRequestDecoder::default());
            let mut restored: BTreeMap<Vec<u8>, Vec<u8>> = BTreeMap::new();
            loop {
                match framed.next().await {
                    Some(Ok(LaneRequest::Command(MapMessage::Update { key, value }))) => {
                        if restored.insert(key.as_ref().to_vec(), value.as_ref().to_vec()).is_some() {
                            return Err("a map entry was replayed twice".to_string());
                        }
                    }
                    Some(Ok(LaneRequest::InitComplete)) => return Ok(restored),
                    ow => return Err(format!("unexpected frame {:?}", ow)),
                }
            }
        };
        let (result, restored) = join(init_task, recv_task).await;
        result.map_err(|e| format!("the map initializer failed: {e}"))?;
        let restored = restored?;
        if restored != map {
            return Err(format!("after the restart the map item is given {:?}; the operations handed to the store imply {:?}", restored, map));
        }
    }
    Ok(())
}

#[test]
fn store_restore_contract() {
    let depth: usize = std::env::var("VERIF_BX_DEPTH").ok().and_then(|s| s.parse().ok()).unwrap_or(4);
    let ops = ops();
    let rt = tokio::runtime::Builder::new_current_thread().build().expect("runtime");
    let mut evaluations = 0usize;
    let mut failure: Option<String> = None;
    let mut idx = vec![0usize; depth];
    'outer: for len in 0..=depth {
        idx.iter_mut().for_each(|i| *i = 0);
        loop {
            let seq: Vec<Op> = idx[..len].iter().map(|i| ops[*i]).collect();
            evaluations += 1;
            if let Err(e) = rt.block_on(run_sequence(&seq)) {
                failure = Some(format!("{:?} => {}", seq, e));
                break 'outer;
            }
            let mut k = 0;
            loop {
                if k == len {
                    break;
                }
                idx[k] += 1;
                if idx[k] < ops.len() {
                    break;
                }
                idx[k] = 0;
                k += 1;
            }
            if k == len {
                break;
            }
        }
    }
    println!("BX-SAMPLE depth={depth} universe={} persist operations; e.g. [Put(v), Put(empty), Update(empty key, v), Remove(k)] then restart", ops.len());
    match failure {
        None => println!("BX-OBL store_restore::restart_restores_the_last_state_handed_to_the_store ok evaluations={evaluations} distinct={evaluations}"),
        Some(w) => {
            println!("BX-FAIL store_restore::restart_restores_the_last_state_handed_to_the_store witness={w}");
            panic!("contract violated");
        }
    }
}
