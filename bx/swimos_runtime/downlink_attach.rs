// BOUNDED contract check of the shared downlink's attachment task (runtime/swimos_runtime/src/downlink/mod.rs: attach_task) --
// property C07: "a consumer joining late is brought up to date": the write task asks the remote lane to sync as soon as it is
// handed a consumer's producer half, and the read task can only deliver the answer to consumers it already holds. So the order in
// which attach_task hands the two halves of a new consumer to the two tasks is part of the contract:
//     at every moment, the number of producer halves handed to the WRITE task <= the number of consumer halves handed to the READ task.
// (An async loop over two bounded mpsc channels: outside Verus here -- `send(&self)` has no expressible effect -- and Kani.)
// The real attach_task runs as a tokio task; the harness plays both receiving tasks and decides, one step at a time, whether to
// offer a new consumer, let the read task take one item, or let the write task take one item. Both queues hold ONE item, so the
// task is regularly blocked on either side. Checked after EVERY step of EVERY sequence up to VERIF_BX_DEPTH.
use super::*;
use swimos_utilities::byte_channel;
use swimos_utilities::non_zero_usize;

#[derive(Clone, Copy, Debug)]
enum Op { Attach, ReadTaskTakes, WriteTaskTakes }

async fn settle() {
    for _ in 0..16 { tokio::task::yield_now().await; }
}

async fn run_sequence(seq: &[Op]) -> Result<(), String> {
    let (attach_tx, attach_rx) = mpsc::channel::<AttachAction>(8);
    let (producer_tx, mut producer_rx) = mpsc::channel::<(ByteReader, DownlinkOptions)>(1);
    let (consumer_tx, mut consumer_rx) = mpsc::channel::<(ByteWriter, DownlinkOptions)>(1);
    let (stop_tx, stop_rx) = trigger::trigger();
    let task = tokio::spawn(attach_task(attach_rx, producer_tx, consumer_tx, stop_rx));
    let mut keep = vec![];
    let mut offered = 0usize;
    let mut read_has = 0usize;   // consumer halves the read task took out of its queue
    let mut write_has = 0usize;  // producer halves the write task took out of its queue
    for (i, op) in seq.iter().enumerate() {
        match op {
            Op::Attach => {
                let (tx_in, rx_in) = byte_channel::byte_channel(non_zero_usize!(64));
                let (tx_out, rx_out) = byte_channel::byte_channel(non_zero_usize!(64));
                keep.push((tx_in, rx_out));
                if attach_tx.try_send(AttachAction::new((tx_out, rx_in), DownlinkOptions::SYNC)).is_ok() { offered += 1; }
            }
            Op::ReadTaskTakes => { if consumer_rx.try_recv().is_ok() { read_has += 1; } }
            Op::WriteTaskTakes => { if producer_rx.try_recv().is_ok() { write_has += 1; } }
        }
        settle().await;
        // what each task has been HANDED = taken + waiting in its queue 
        let read_handed = read_has + consumer_rx.len();
        let write_handed = write_has + producer_rx.len();
        if write_handed > read_handed {
            return Err(format!("after step {} the write task has been handed {} producer half/halves but the read task only {} consumer half/halves", i, write_handed, read_handed));
        }
        if read_handed > offered || write_handed > offered {
            return Err(format!("after step {}: more halves handed on ({} / {}) than consumers offered ({})", i, read_handed, write_handed, offered));
        }
    }
    // drain: every offered consumer reaches both tasks, each exactly once
    for _ in 0..(2 * offered + 2) {
        if consumer_rx.try_recv().is_ok() { read_has += 1; }
        settle().await;
        if producer_rx.try_recv().is_ok() { write_has += 1; }
        settle().await;
    }
    if read_has != offered || write_has != offered {
        return Err(format!("{} consumers were offered; the read task received {} and the write task {}", offered, read_has, write_has));
    }
    stop_tx.trigger();
    drop(attach_tx);
    let _ = task.await;
    Ok(())
}

#[test]
fn downlink_attach() {
    let depth: usize = std::env::var("VERIF_BX_DEPTH").ok().and_then(|s| s.parse().ok()).unwrap_or(6);
    let alphabet = [Op::Attach, Op::ReadTaskTakes, Op::WriteTaskTakes];
    let rt = tokio::runtime::Builder::new_current_thread().enable_all().build().expect("runtime");
    let mut evaluations = 0u64;
    let mut fail: Option<String> = None;
    'outer: for len in 1..=depth {
        let mut idx = vec![0usize; len];
        loop {
            let seq: Vec<Op> = idx.iter().map(|i| alphabet[*i]).collect();
            evaluations += 1;
            if let Err(e) = rt.block_on(run_sequence(&seq)) {
                fail = Some(format!("steps={:?} :: {}", seq, e));
                break 'outer;
            }
            let mut p = 0;
            loop {
                if p == len { break; }
                idx[p] += 1;
                if idx[p] < alphabet.len() { break; }
                idx[p] = 0;
                p += 1;
            }
            if p == len { break; }
        }
    }
    println!("BX-SAMPLE [Attach, Attach, WriteTaskTakes, ReadTaskTakes] with both queues of capacity 1");
    match fail {
        None => println!("BX-OBL downlink_attach::the_read_task_holds_a_consumer_before_the_write_task_can_ask_to_sync_for_it ok evaluations={} distinct={}", evaluations, evaluations),
        Some(w) => println!("BX-FAIL downlink_attach::the_read_task_holds_a_consumer_before_the_write_task_can_ask_to_sync_for_it witness={}", w),
    }
}
