// BOUNDED contract check of the agent runtime's inactivity shutdown as a whole (runtime/swimos_runtime/src/agent/task/mod.rs:
// AgentRuntimeTask::run = read task + write task + HTTP task around the three-party vote of timeout_coord) -- property C17:
// "An agent ... runtime stops for inactivity only when every one of its constituent tasks has an outstanding vote to stop at the
// same moment". The vote itself (Voter / Receiver) is proved by the Kani unit `timeout_coord`; what is checked here is that the
// tasks STOP only through it. The real runtime runs against the crate's fake agent (tests/coordination.rs) with an inactivity
// timeout of 100 ms; the harness keeps ONE party busy (an HTTP request every 30 ms, which the HTTP task answers, so that it never
// votes) for 450 ms and watches whether the runtime is still alive; scenarios: no remote attached / one remote attached and linked.
// Then the traffic stops and the runtime must stop by itself (all three vote).
use super::*;
use std::time::Instant;

async fn http_ok(http_tx: &mpsc::Sender<HttpLaneRequest>, event_rx: &mut Events) -> bool {
    let (request, response_rx) = HttpLaneRequest::new(HttpRequest {
        method: Method::GET,
        version: Version::HTTP_1_1,
        uri: Uri::from_static(HTTP_URI),
        headers: vec![],
        payload: Bytes::from("Request"),
    });
    if http_tx.send(request).await.is_err() {
        return false;
    }
    let Events(inner) = event_rx;
    match tokio::time::timeout(Duration::from_millis(200), inner.recv()).await {
        Ok(Some(_)) => {}
        _ => return false,
    }
    matches!(tokio::time::timeout(Duration::from_millis(200), response_rx).await, Ok(Ok(_)))
}

// Ok(ms the runtime stayed alive under traffic) or Err(description)
async fn scenario(with_remote: bool) -> Result<u128, String> {
    let (_, result) = run_test_case(INACTIVE_TEST_TIMEOUT, DEFAULT_TIMEOUT, None, |context| async move {
        let TestContext { att_tx, http_tx, links_rx: _links_rx, create_tx: _create_tx, mut event_rx, stop_tx } = context;
        let mut keep = None;
        if with_remote {
            let (mut sender, mut receiver) = attach_remote(RID1, &att_tx).await;
            sender.link(VAL_LANE).await;
            receiver.expect_linked(VAL_LANE).await;
            keep = Some((sender, receiver));
        }
        let start = Instant::now();
        let mut alive_ms = 0u128;
        let mut stopped_under_traffic = false;
        while start.elapsed() < Duration::from_millis(450) {
            if !http_ok(&http_tx, &mut event_rx).await {
                stopped_under_traffic = true;
                break;
            }
            alive_ms = start.elapsed().as_millis();
            tokio::time::sleep(Duration::from_millis(30)).await;
        }
        drop(keep);
        let r = if stopped_under_traffic {
            Err(format!("the runtime stopped after about {} ms although HTTP requests kept arriving every 30 ms (the HTTP task cannot have voted to stop)", alive_ms))
        } else {
            Ok(alive_ms)
        };
        (r, stop_tx)
    })
    .await;
    result.0
}

#[test]
fn agent_inactivity() {
    let rt = tokio::runtime::Builder::new_current_thread().enable_all().build().expect("runtime");
    let mut evaluations = 0;
    let mut fail: Option<String> = None;
    for with_remote in [true, false] {
        evaluations += 1;
        if let Err(e) = rt.block_on(scenario(with_remote)) {
            fail = Some(format!("[inactive timeout 100 ms; {}; an HTTP request every 30 ms for 450 ms] :: {}",
                if with_remote { "one remote attached and linked" } else { "no remote attached" }, e));
            break;
        }
    }
    println!("BX-SAMPLE [one remote attached and linked; an HTTP request every 30 ms for 450 ms; inactive timeout 100 ms]");
    match fail {
        None => println!("BX-OBL agent_inactivity::no_inactivity_stop_while_one_task_is_busy ok evaluations={} distinct={}", evaluations, evaluations),
        Some(w) => println!("BX-FAIL agent_inactivity::no_inactivity_stop_while_one_task_is_busy witness={}", w),
    }
}
