// BOUNDED check of the ASSUMPTION under which the coalescing queue of map operations is proved (Verus unit `map_queue`;
// properties C02 / C07; it is the statement of property C15): ReconKey's Eq / Hash (runtime/swimos_runtime/src/backpressure/
// key/mod.rs, delegating to swimos_recon::compare_recon_values / recon_hash) identify exactly the key texts that denote the
// same model value. (String parsing: outside Verus/Kani.) Over a universe of key texts -- several spellings of a few values
// (whitespace, quoting, numeric width, record brackets), distinct values that look alike, and texts that are not valid Recon
// -- EVERY pair and triple is checked: == is reflexive, symmetric and transitive; for two valid texts it holds exactly when
// they parse to equal model values; an invalid text is == only to the identical text; == keys hash equally.
use super::*;
use std::collections::hash_map::DefaultHasher;
use swimos_model::Value;
use swimos_recon::parser::parse_recognize;

fn h(k: &ReconKey) -> u64 {
    let mut s = DefaultHasher::new();
    k.hash(&mut s);
    s.finish()
}

#[test]
fn recon_key_contract() {
    let texts: Vec<&str> = vec![
        "a", "\"a\"", " a", "a ", "b", "A", "\"a b\"", "\"a  b\"", "1", " 1", "1 ", "01", "1.0", "\"1\"", "-1", "10", "2", "true", "\"true\"", "false",
        "", "\"\"", "@a", "@a{}", "@a()", "@a(1)", "@a( 1 )", "@a(2)", "{a:1}", "{ a : 1 }", "{a:2}", "{a:1,b:2}", "{b:2,a:1}", "{1,2}", "{1, 2}", "{1;2}",
        "{", "}", "@", "\"unterminated", "a b", "{a:}", "1 2",
    ];
    let keys: Vec<ReconKey> = texts.iter().map(|t| ReconKey::from(*t)).collect();
    let parsed: Vec<Option<Value>> = texts.iter().map(|t| parse_recognize::<Value>(*t, false).ok()).collect();
    let n = texts.len();
    let mut evaluations = 0usize;
    let mut failure: Option<String> = None;
    'outer: for i in 0..n {
        evaluations += 1;
        if keys[i] != keys[i] {
            failure = Some(format!("key {:?} is not equal to itself", texts[i]));
            break;
        }
        for j in 0..n {
            evaluations += 1;
            let eq = keys[i] == keys[j];
            if eq != (keys[j] == keys[i]) {
                failure = Some(format!("{:?} == {:?} is {eq} but the reverse is {}", texts[i], texts[j], !eq));
                break 'outer;
            }
            let expected = match (&parsed[i], &parsed[j]) {
                (Some(a), Some(b)) => a == b,
                _ => texts[i] == texts[j],
            };
            if eq != expected {
                failure = Some(format!(
                    "keys {:?} and {:?} compare {} but they {}",
                    texts[i],
                    texts[j],
                    if eq { "equal" } else { "different" },
                    match (&parsed[i], &parsed[j]) {
                        (Some(a), Some(b)) => format!("parse to {:?} and {:?}", a, b),
                        _ => "are not both valid Recon (plain text comparison applies)".to_string(),
                    }
                ));
                break 'outer;
            }
            if eq && h(&keys[i]) != h(&keys[j]) {
                failure = Some(format!("keys {:?} and {:?} are equal but hash differently", texts[i], texts[j]));
                break 'outer;
            }
            for k in 0..n {
                evaluations += 1;
                if eq && keys[j] == keys[k] && keys[i] != keys[k] {
                    failure = Some(format!("{:?} == {:?} == {:?} but the first is not == the last", texts[i], texts[j], texts[k]));
                    break 'outer;
                }
            }
        }
    }
    println!("BX-SAMPLE {n} key texts, all pairs and triples; e.g. \\\"a\\\" vs a, 1 vs 01 vs 1.0, {{a:1}} vs {{ a : 1 }}, invalid texts");
    match failure {
        None => println!("BX-OBL recon_key::equality_is_value_equality_of_the_parsed_keys_and_hash_agrees ok evaluations={evaluations} distinct={evaluations}"),
        Some(w) => {
            println!("BX-FAIL recon_key::equality_is_value_equality_of_the_parsed_keys_and_hash_agrees witness={w}");
            panic!("contract violated");
        }
    }
}
