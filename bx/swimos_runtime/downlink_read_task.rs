// BOUNDED contract check of the shared downlink's read task (runtime/swimos_runtime/src/downlink/mod.rs: read_task, link,
// sync_current, sync_only, send_current, clear_failed, flush_all) -- property C07, consumer-session half. (An async select!
// loop over byte channels: outside Verus/Kani.) The real `read_task` runs as a tokio task on a current-thread runtime; the
// harness feeds it ONE input at a time (a consumer attaching with/without SYNC, a consumer going away, or one frame from the
// remote lane: linked / the next numbered event / synced), lets it run until it is idle, then reads what each consumer received.
// Checked on EVERY well-behaved input sequence up to VERIF_BX_DEPTH (value downlink interpretation; at most 3 consumers).
// Contract (from the property): every consumer receives `linked` (at once if the link is already up), a consumer that asked to
// be synced then receives the current value and `synced` at the next `synced` of the link and every later event in order; a
// consumer that did not ask receives every event after its `linked`, in order; nothing is reordered, duplicated or lost for
// the consumers that stay, whoever else attaches or goes away.
use super::interpretation::{value_interpretation, NoInterpretation};
use super::*;
use crate::downlink::failure::InfallibleStrategy;
use crate::timeout_coord::downlink_timeout_coordinator;
use swimos_agent_protocol::encoding::downlink::ValueNotificationDecoder;
use swimos_messages::protocol::ResponseMessageEncoder;
use swimos_utilities::byte_channel;
use swimos_utilities::non_zero_usize;

#[derive(Clone, Copy, Debug, PartialEq)]
enum Op {
    Attach { sync: bool },
    Detach(usize),
    // consumers 0 and 1 go away together (both are found dead in the same pass over the consumers)
    DetachBoth,
    Linked,
    // the next event of the lane (events are numbered 1, 2, ...)
    Event,
    Synced,
}
fn universe() -> Vec<Op> {
    vec![Op::Attach { sync: false }, Op::Attach { sync: true }, Op::Detach(0), Op::Detach(1), Op::DetachBoth, Op::Linked, Op::Event, Op::Synced]
}
type Reader = FramedRead<ByteReader, ValueNotificationDecoder<i32>>;
struct Consumer {
    sync: bool,
    linked: bool,
    synced: bool,
    reader: Option<Reader>,
    received: Vec<String>,
    expected: Vec<String>,
}

async fn settle() {
    for _ in 0..24 {
        tokio::task::yield_now().await;
    }
}

// multi_frame: the interpretation of a map downlink (the state is spread over many frames): every event is forwarded at once
// also to consumers still waiting for synced, and synced carries no value
async fn run_sequence(seq: &[Op], multi_frame: bool) -> Result<bool, String> {
    let (msg_tx, msg_rx) = byte_channel::byte_channel(non_zero_usize!(4096));
    let mut remote = FramedWrite::new(msg_tx, ResponseMessageEncoder);
    let (consumers_tx, consumers_rx) = mpsc::channel(8);
    let config = DownlinkRuntimeConfig {
        empty_timeout: Duration::from_secs(100_000),
        attachment_queue_size: non_zero_usize!(8),
        abort_on_bad_frames: true,
        remote_buffer_size: non_zero_usize!(4096),
        downlink_buffer_size: non_zero_usize!(4096),
    };
    let (read_vote, _write_vote, _vote_rx) = downlink_timeout_coordinator();
    let task = if multi_frame {
        tokio::spawn(read_task(msg_rx, consumers_rx, config, NoInterpretation, InfallibleStrategy, read_vote))
    } else {
        tokio::spawn(read_task(msg_rx, consumers_rx, config, value_interpretation(), InfallibleStrategy, read_vote))
    };
    let addr = Uuid::from_u128(7);
    let path = || RelativeAddress::new("/node", "lane");
    let mut consumers: Vec<Consumer> = vec![];
    let mut link_up = false;
    let mut current: Option<i32> = None;
    let mut next_event = 1i32;
    for (step, op) in seq.iter().enumerate() {
        // only what a well-behaved link and its users can produce
        let legal = match *op {
            Op::Attach { .. } => consumers.len() < 3,
            Op::Detach(i) => i < consumers.len() && consumers[i].reader.is_some(),
            Op::DetachBoth => consumers.len() >= 2 && consumers[0].reader.is_some() && consumers[1].reader.is_some(),
            Op::Linked => !link_up,
            Op::Event | Op::Synced => link_up,
        };
        if !legal {
            task.abort();
            return Ok(false);
        }
        match *op {
            Op::Attach { sync } => {
                let (tx, rx) = byte_channel::byte_channel(non_zero_usize!(4096));
                let options = if sync { DownlinkOptions::SYNC } else { DownlinkOptions::empty() };
                consumers_tx.send((tx, options)).await.map_err(|_| format!("step {step}: the read task stopped"))?;
                let mut c = Consumer { sync, linked: false, synced: false, reader: Some(FramedRead::new(rx, Default::default())), received: vec![], expected: vec![] };
                if link_up {
                    c.linked = true;
                    c.expected.push("linked".into());
                }
                consumers.push(c);
            }
            Op::Detach(i) => {
                consumers[i].reader = None;
            }
            Op::DetachBoth => {
                consumers[0].reader = None;
                consumers[1].reader = None;
            }
            Op::Linked => {
                remote.send(ResponseMessage::<&str, i32, &[u8]>::linked(addr, path())).await.map_err(|e| format!("step {step}: {e}"))?;
                link_up = true;
                for c in consumers.iter_mut() {
                    c.linked = true;
                    c.expected.push("linked".into());
                }
            }
            Op::Event => {
                let v = next_event;
                next_event += 1;
                remote.send(ResponseMessage::<&str, i32, &[u8]>::event(addr, path(), v)).await.map_err(|e| format!("step {step}: {e}"))?;
                current = Some(v);
                for c in consumers.iter_mut() {
                    if c.linked && (multi_frame || !c.sync || c.synced) {
                        c.expected.push(format!("event({v})"));
                    }
                }
            }
            Op::Synced => {
                remote.send(ResponseMessage::<&str, i32, &[u8]>::synced(addr, path())).await.map_err(|e| format!("step {step}: {e}"))?;
                for c in consumers.iter_mut() {
                    if c.linked && c.sync && !c.synced {
                        if let (Some(v), false) = (current, multi_frame) {
                            c.expected.push(format!("event({v})"));
                        }
                        c.expected.push("synced".into());
                        c.synced = true;
                    }
                }
            }
        }
        settle().await;
        if task.is_finished() {
            return Err(format!("step {step}: the read task stopped"));
        }
        for (i, c) in consumers.iter_mut().enumerate() {
            if let Some(reader) = c.reader.as_mut() {
                // (the byte channel's cooperative-yield budget makes a read return Pending now and then although data is
                //  there: an empty poll is retried a few times before the consumer is taken to have nothing more)
                let mut empty_polls = 0;
                loop {
                    let item = match reader.next().now_or_never() {
                        Some(Some(item)) => item,
                        Some(None) => break,
                        None => {
                            empty_polls += 1;
                            if empty_polls > 4 {
                                break;
                            }
                            tokio::task::yield_now().await;
                            continue;
                        }
                    };
                    match item {
                        Ok(DownlinkNotification::Linked) => c.received.push("linked".into()),
                        Ok(DownlinkNotification::Synced) => c.received.push("synced".into()),
                        Ok(DownlinkNotification::Unlinked) => c.received.push("unlinked".into()),
                        Ok(DownlinkNotification::Event { body }) => c.received.push(format!("event({body})")),
                        Err(e) => return Err(format!("step {step}: consumer {i} got a bad frame: {e}")),
                    }
                }
                if c.received != c.expected {
                    return Err(format!(
                        "step {step}: consumer {i} (sync={}) received {:?}, the session it is owed is {:?}",
                        c.sync, c.received, c.expected
                    ));
                }
            }
        }
    }
    // epilogue: the link closes (the remote unlinks). Every consumer that is still there is owed `unlinked` as the last item of its
    // session -- whatever happened to the other consumers (dropped readers the runtime has not noticed yet included)
    if link_up {
        remote.send(ResponseMessage::<&str, i32, &[u8]>::unlinked(addr, path(), None)).await.map_err(|e| format!("epilogue: {e}"))?;
        settle().await;
        settle().await;
        for (i, c) in consumers.iter_mut().enumerate() {
            if let Some(reader) = c.reader.as_mut() {
                c.expected.push("unlinked".into());
                let mut empty_polls = 0;
                loop {
                    let item = match reader.next().now_or_never() {
                        Some(Some(item)) => item,
                        Some(None) => break,
                        None => {
                            empty_polls += 1;
                            if empty_polls > 8 {
                                break;
                            }
                            tokio::task::yield_now().await;
                            continue;
                        }
                    };
                    match item {
                        Ok(DownlinkNotification::Linked) => c.received.push("linked".into()),
                        Ok(DownlinkNotification::Synced) => c.received.push("synced".into()),
                        Ok(DownlinkNotification::Unlinked) => c.received.push("unlinked".into()),
                        Ok(DownlinkNotification::Event { body }) => c.received.push(format!("event({body})")),
                        Err(e) => return Err(format!("epilogue: consumer {i} got a bad frame: {e}")),
                    }
                }
                if c.received != c.expected {
                    return Err(format!(
                        "after the link closed: consumer {i} (sync={}) received {:?}, the session it is owed is {:?}",
                        c.sync, c.received, c.expected
                    ));
                }
            }
        }
    }
    task.abort();
    Ok(true)
}

#[test]
fn downlink_read_task_contract() {
    let depth: usize = std::env::var("VERIF_BX_DEPTH").ok().and_then(|s| s.parse().ok()).unwrap_or(5);
    let ops = universe();
    let rt = tokio::runtime::Builder::new_current_thread().enable_time().build().expect("runtime");
    let mut evaluations = 0usize;
    let mut nontrivial = 0usize;
    let mut failure: Option<String> = None;
    let mut idx = vec![0usize; depth];
    'outer: for len in 1..=depth {
        idx.iter_mut().for_each(|i| *i = 0);
        loop {
            let seq: Vec<Op> = idx[..len].iter().map(|i| ops[*i]).collect();
            evaluations += 1;
            for multi_frame in [false, true] {
                // (the multi-frame interpretation is explored one level less deep)
                if multi_frame && len == depth {
                    continue;
                }
                match rt.block_on(run_sequence(&seq, multi_frame)) {
                    Ok(true) => nontrivial += 1,
                    Ok(false) => {}
                    Err(e) => {
                        failure = Some(format!("{} {:?} => {}", if multi_frame { "multi-frame (map) interpretation" } else { "value interpretation" }, seq, e));
                        break 'outer;
                    }
                }
            }
            let mut k = 0;
            loop {
                if k == len {
                    break;
                }
                idx[k] += 1;
                if idx[k] < ops.len() {
                    break;
                }
                idx[k] = 0;
                k += 1;
            }
            if k == len {
                break;
            }
        }
    }
    println!("BX-SAMPLE depth={depth} inputs {{attach(sync), attach(no sync), detach 0, detach 1, detach 0+1, linked, next event, synced}}; e.g. [Attach(sync), Linked, Event, Attach(no sync), Synced, Event]");
    match failure {
        None => println!("BX-OBL downlink_read_task::every_consumer_gets_a_complete_ordered_session ok evaluations={evaluations} distinct={nontrivial}"),
        Some(w) => {
            println!("BX-FAIL downlink_read_task::every_consumer_gets_a_complete_ordered_session witness={w}");
            panic!("contract violated");
        }
    }
}
