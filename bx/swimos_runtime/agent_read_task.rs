// BOUNDED contract check of the agent runtime's read task (runtime/swimos_runtime/src/agent/task/mod.rs: read_task, and
// LaneSender::feed_frame with its counting) -- property C20, command counters: the counters lose nothing -- the sum of all
// snapshots taken equals the number of commands received, for every lane and for the agent as a whole (the two must agree).
// (An async select loop: outside Verus/Kani; the counters themselves are proved in the Kani component `reporting`.)
// The real `read_task` runs against the crate's fake agent (tests/read.rs); the harness plays one remote that sends value
// commands, map commands with a valid and with an INVALID header, link and sync requests, and takes snapshots at arbitrary
// points. EVERY sequence up to VERIF_BX_DEPTH is run, one input at a time.
use super::*;
use futures::SinkExt;
use swimos_api::address::RelativeAddress;
use swimos_messages::protocol::RequestMessage;

#[derive(Clone, Copy, Debug)]
enum Op {
    ValueCmd,
    MapCmd,
    MapCmdBad,
    Link,
    Sync,
    Snapshot,
}
fn universe() -> Vec<Op> {
    vec![Op::ValueCmd, Op::MapCmd, Op::MapCmdBad, Op::Link, Op::Sync, Op::Snapshot]
}

async fn run_sequence(seq: Vec<Op>) -> Result<(), String> {
    let (_, result) = run_test_case(DEFAULT_TIMEOUT, true, |context| async move {
        let TestContext { stop_sender, reg_tx, write_voter: _write_voter, http_voter: _http_voter, vote_rx: _vote_rx, mut event_rx, readers } = context;
        let readers = readers.ok_or("no report readers")?;
        let mut sender = attach_remote(&reg_tx).await;
        let mut sent = [0u64; 2]; // commands addressed to the value lane / the map lane
        let mut counted_lane = [0u64; 2];
        let mut counted_agent = 0u64;
        let mut take = |counted_lane: &mut [u64; 2], counted_agent: &mut u64| -> Result<(), String> {
            let Snapshots { aggregate, lanes } = readers.snapshot().ok_or("a reporter was dropped")?;
            counted_lane[0] += lanes[VAL_LANE].command_count;
            counted_lane[1] += lanes[MAP_LANE].command_count;
            *counted_agent += aggregate.command_count;
            Ok(())
        };
        for (step, op) in seq.iter().enumerate() {
            match op {
                Op::ValueCmd => {
                    sender.value_command(VAL_LANE, 7).await;
                    sent[0] += 1;
                }
                Op::MapCmd => {
                    sender.map_command(MAP_LANE, "k", 1).await;
                    sent[1] += 1;
                }
                Op::MapCmdBad => {
                    let RemoteSender { node, rid, inner } = &mut sender;
                    let path = RelativeAddress::new(node.as_str(), MAP_LANE);
                    let msg: RequestMessage<&str, &[u8]> = RequestMessage::command(*rid, path, b"@nonsense(key:2) 5");
                    inner.send(msg).await.map_err(|e| e.to_string())?;
                    sent[1] += 1;
                }
                Op::Link => sender.link(VAL_LANE).await,
                Op::Sync => sender.sync(VAL_LANE).await,
                Op::Snapshot => {
                    take(&mut counted_lane, &mut counted_agent)?;
                    continue;
                }
            }
            // every input produces exactly one observable event at the fake agent (a lane request or a coordination message)
            match tokio::time::timeout(Duration::from_secs(5), event_rx.recv()).await {
                Ok(Some(_)) => {}
                ow => return Err(format!("step {step}: {:?} was not processed: {:?}", op, ow.map(|o| o.is_some()))),
            }
        }
        take(&mut counted_lane, &mut counted_agent)?;
        stop_sender.trigger();
        if counted_lane != sent {
            return Err(format!("commands received per lane [value, map] = {:?}, sum of the lane snapshots = {:?}", sent, counted_lane));
        }
        if counted_agent != sent[0] + sent[1] {
            return Err(format!("the agent received {} commands, the sum of the agent snapshots is {counted_agent} (lanes: {:?})", sent[0] + sent[1], counted_lane));
        }
        Ok(())
    })
    .await;
    result
}

#[test]
fn agent_read_task_contract() {
    let depth: usize = std::env::var("VERIF_BX_DEPTH").ok().and_then(|s| s.parse().ok()).unwrap_or(5);
    let ops = universe();
    let rt = tokio::runtime::Builder::new_current_thread().enable_time().build().expect("runtime");
    let mut evaluations = 0usize;
    let mut failure: Option<String> = None;
    let mut idx = vec![0usize; depth];
    'outer: for len in 1..=depth {
        idx.iter_mut().for_each(|i| *i = 0);
        loop {
            let seq: Vec<Op> = idx[..len].iter().map(|i| ops[*i]).collect();
            evaluations += 1;
            if let Err(e) = rt.block_on(run_sequence(seq.clone())) {
                failure = Some(format!("{:?} => {}", seq, e));
                break 'outer;
            }
            let mut k = 0;
            loop {
                if k == len {
                    break;
                }
                idx[k] += 1;
                if idx[k] < ops.len() {
                    break;
                }
                idx[k] = 0;
                k += 1;
            }
            if k == len {
                break;
            }
        }
    }
    println!("BX-SAMPLE depth={depth} inputs {{value command, map command, map command with an invalid header, link, sync, snapshot}}; e.g. [ValueCmd, Snapshot, MapCmdBad, MapCmd]");
    match failure {
        None => println!("BX-OBL agent_read_task::command_counters_of_lanes_and_agent_lose_nothing_and_agree ok evaluations={evaluations} distinct={evaluations}"),
        Some(w) => {
            println!("BX-FAIL agent_read_task::command_counters_of_lanes_and_agent_lose_nothing_and_agree witness={w}");
            panic!("contract violated");
        }
    }
}
