// BOUNDED contract check of Links / LaneLinks (runtime/swimos_runtime/src/agent/task/links.rs) -- properties C20 and C04.
// Links is built on std HashMap/HashSet with the Entry API, lazy `impl Iterator` returns and closures: outside the installed
// Verus (and vstd's OccupiedEntry specs are inconsistent on the get_mut/get/remove sequence used here, see DESIGN.md) and
// outside Kani (std HashMap does not terminate). The contract is therefore checked natively on EVERY operation sequence up
// to VERIF_BX_DEPTH over lanes {0,1} x remotes {A,B}, with per-lane reporters registered at arbitrary points and an aggregate
// reporter, against the abstract relation R (a set of (lane, remote) pairs):
//   L-wf after every operation: for every lane with a registered reporter the reporter is still attached and reports |R(lane)|;
//        the aggregate reporter reports |R|; linked_from / linked_to / is_linked read R;
//   remove: schedule_prune <=> the remote has no link left; remove_lane / remove_all_links yield exactly the removed pairs;
//   count_single / count_broadcast add 1 / |R(lane)| to the lane's and the aggregate's event counters (nothing lost).
use super::*;
use crate::agent::reporting::{UplinkReportReader, UplinkReporter};
use std::collections::BTreeSet;

const RA: Uuid = Uuid::from_u128(1);
const RB: Uuid = Uuid::from_u128(2);

#[derive(Clone, Copy, Debug)]
enum Op {
    Register(u64),
    Insert(u64, u8),
    Remove(u64, u8),
    RemoveRemote(u8),
    RemoveLane(u64),
    RemoveAll,
    CountSingle(u64),
    CountBroadcast(u64),
}
fn rid(r: u8) -> Uuid {
    if r == 0 {
        RA
    } else {
        RB
    }
}
fn ops() -> Vec<Op> {
    let mut v = vec![Op::RemoveAll];
    for l in 0..2u64 {
        v.push(Op::Register(l));
        v.push(Op::RemoveLane(l));
        v.push(Op::CountSingle(l));
        v.push(Op::CountBroadcast(l));
        for r in 0..2u8 {
            v.push(Op::Insert(l, r));
            v.push(Op::Remove(l, r));
        }
    }
    for r in 0..2u8 {
        v.push(Op::RemoveRemote(r));
    }
    v
}

struct Model {
    rel: BTreeSet<(u64, u8)>,
    readers: [Option<UplinkReportReader>; 2],
    lane_events: [u64; 2],
    agg_events: u64,
}

fn check(links: &Links, m: &mut Model, agg: &UplinkReportReader, step: usize) -> Result<(), String> {
    let total = m.rel.len() as u64;
    let snap = agg.snapshot().ok_or_else(|| format!("step {step}: aggregate reporter dropped"))?;
    if snap.link_count != total {
        return Err(format!("step {step}: aggregate reports {} links, the agent has {}", snap.link_count, total));
    }
    if snap.event_count != m.agg_events {
        return Err(format!("step {step}: aggregate counted {} events since the last snapshot, {} were sent", snap.event_count, m.agg_events));
    }
    m.agg_events = 0;
    for l in 0..2u64 {
        let n = m.rel.iter().filter(|(x, _)| *x == l).count() as u64;
        if let Some(reader) = &m.readers[l as usize] {
            match reader.snapshot() {
                None => return Err(format!("step {step}: the reporter registered for lane {l} was dropped")),
                Some(s) => {
                    if s.link_count != n {
                        return Err(format!("step {step}: lane {l} reports {} links, {} remotes are linked", s.link_count, n));
                    }
                    if s.event_count != m.lane_events[l as usize] {
                        return Err(format!("step {step}: lane {l} counted {} events since the last snapshot, {} were sent", s.event_count, m.lane_events[l as usize]));
                    }
                }
            }
        }
        m.lane_events[l as usize] = 0;
        let lf: BTreeSet<u8> = links.linked_from(l).map(|s| s.iter().map(|u| if *u == RA { 0 } else { 1 }).collect()).unwrap_or_default();
        let expect: BTreeSet<u8> = m.rel.iter().filter(|(x, _)| *x == l).map(|(_, r)| *r).collect();
        if lf != expect {
            return Err(format!("step {step}: linked_from({l}) = {:?}, relation has {:?}", lf, expect));
        }
        if links.linked_from(l).map(|s| s.is_empty()).unwrap_or(false) {
            return Err(format!("step {step}: linked_from({l}) returned an empty set instead of None"));
        }
        for r in 0..2u8 {
            if links.is_linked(rid(r), l) != m.rel.contains(&(l, r)) {
                return Err(format!("step {step}: is_linked({r},{l}) disagrees with the relation"));
            }
        }
    }
    for r in 0..2u8 {
        let lt: BTreeSet<u64> = links.linked_to(rid(r)).map(|s| s.iter().copied().collect()).unwrap_or_default();
        let expect: BTreeSet<u64> = m.rel.iter().filter(|(_, x)| *x == r).map(|(l, _)| *l).collect();
        if lt != expect {
            return Err(format!("step {step}: linked_to({r}) = {:?}, relation has {:?}", lt, expect));
        }
    }
    Ok(())
}

fn run_sequence(seq: &[Op]) -> Result<(), String> {
    let agg = UplinkReporter::default();
    let agg_reader = agg.reader();
    let mut links = Links::new(Some(agg));
    let mut m = Model { rel: BTreeSet::new(), readers: [None, None], lane_events: [0; 2], agg_events: 0 };
    for (step, op) in seq.iter().enumerate() {
        match *op {
            Op::Register(l) => {
                let rep = UplinkReporter::default();
                // a freshly registered reporter is told the current number of links by the next link change only;
                // the runtime registers reporters before any link exists, so only do so on an unlinked lane
                if m.rel.iter().any(|(x, _)| *x == l) {
                    continue;
                }
                m.readers[l as usize] = Some(rep.reader());
                links.register_reporter(l, rep);
            }
            Op::Insert(l, r) => {
                links.insert(l, rid(r));
                m.rel.insert((l, r));
            }
            Op::Remove(l, r) => {
                let t = links.remove(l, rid(r));
                m.rel.remove(&(l, r));
                let none_left = !m.rel.iter().any(|(_, x)| *x == r);
                // a remote that was not linked at all is never scheduled for pruning by this call
                let had_any = links.linked_to(rid(r)).is_some() || t.schedule_prune;
                if t.remote_id != rid(r) || (t.schedule_prune && !none_left) || (had_any && none_left && !t.schedule_prune) {
                    return Err(format!("step {step}: remove({l},{r}) returned {:?}, remote has links left: {}", t, !none_left));
                }
            }
            Op::RemoveRemote(r) => {
                links.remove_remote(rid(r));
                m.rel.retain(|(_, x)| *x != r);
            }
            Op::RemoveLane(l) => {
                let got: BTreeSet<(u8, bool)> = links.remove_lane(l).map(|t| (if t.remote_id == RA { 0 } else { 1 }, t.schedule_prune)).collect();
                let removed: Vec<u8> = m.rel.iter().filter(|(x, _)| *x == l).map(|(_, r)| *r).collect();
                m.rel.retain(|(x, _)| *x != l);
                let expect: BTreeSet<(u8, bool)> = removed.iter().map(|r| (*r, !m.rel.iter().any(|(_, x)| x == r))).collect();
                if got != expect {
                    return Err(format!("step {step}: remove_lane({l}) yielded {:?}, expected {:?}", got, expect));
                }
                // the lane is gone, and its reporter with it
                m.readers[l as usize] = None;
            }
            Op::RemoveAll => {
                let got: BTreeSet<(u64, u8)> = links.remove_all_links().map(|(l, u)| (l, if u == RA { 0 } else { 1 })).collect();
                if got != m.rel {
                    return Err(format!("step {step}: remove_all_links yielded {:?}, relation was {:?}", got, m.rel));
                }
                m.rel.clear();
            }
            Op::CountSingle(l) => {
                // an event is sent to one link of lane l: only meaningful when the lane has a link
                if !m.rel.iter().any(|(x, _)| *x == l) {
                    continue;
                }
                links.count_single(l);
                m.lane_events[l as usize] += 1;
                m.agg_events += 1;
            }
            Op::CountBroadcast(l) => {
                let n = m.rel.iter().filter(|(x, _)| *x == l).count() as u64;
                links.count_broadcast(l);
                m.lane_events[l as usize] += n;
                m.agg_events += n;
            }
        }
        check(&links, &mut m, &agg_reader, step)?;
    }
    Ok(())
}

#[test]
fn links_contract() {
    let depth: usize = std::env::var("VERIF_BX_DEPTH").ok().and_then(|s| s.parse().ok()).unwrap_or(4);
    let ops = ops();
    let mut evaluations = 0usize;
    let mut idx = vec![0usize; depth];
    let mut failure: Option<String> = None;
    'outer: for len in 1..=depth {
        idx.iter_mut().for_each(|i| *i = 0);
        loop {
            let seq: Vec<Op> = idx[..len].iter().map(|i| ops[*i]).collect();
            evaluations += 1;
            if let Err(e) = run_sequence(&seq) {
                failure = Some(format!("{:?} => {}", seq, e));
                break 'outer;
            }
            let mut k = 0;
            loop {
                if k == len {
                    break;
                }
                idx[k] += 1;
                if idx[k] < ops.len() {
                    break;
                }
                idx[k] = 0;
                k += 1;
            }
            if k == len {
                break;
            }
        }
    }
    println!("BX-SAMPLE depth={depth} universe=2 lanes x 2 remotes, {} operations; e.g. [Register(0), Insert(0,0), RemoveRemote(0), Insert(0,1), CountBroadcast(0)]", ops.len());
    match failure {
        None => println!("BX-OBL links::relation_reporters_and_counters_agree_after_every_operation ok evaluations={evaluations} distinct={evaluations}"),
        Some(w) => {
            println!("BX-FAIL links::relation_reporters_and_counters_agree_after_every_operation witness={w}");
            panic!("contract violated");
        }
    }
}
