// BOUNDED contract check of the shared downlink's write task (runtime/swimos_runtime/src/downlink/mod.rs: write_task with the
// value backpressure strategy) -- property C07, command half and the sync requests the read side depends on.
// (An async state machine over select/flush futures: outside Verus/Kani; the backpressure strategies it uses are proved in
// the Verus unit `backpressure`.) The real `write_task` runs as a tokio task; its output channel to the remote lane holds only
// 64 bytes, so frames stay unflushed until the harness (playing the remote) reads. One input at a time: a consumer attaches
// (with or without SYNC), a consumer sends a command (numbered), or the remote drains the output.
// Checked on EVERY input sequence up to VERIF_BX_DEPTH (at most 3 consumers), each followed by a final drain.
// Contract: the first frame is the link request; command frames carry strictly increasing numbers (nothing is reordered,
// duplicated or invented) and, once the task is quiescent and the output drained, the last one is the last command sent
// (only superseded commands are dropped); after every consumer that asked to be synced has attached, a sync request reaches
// the remote (at the latest with the next drain).
use super::*;
use crate::backpressure::ValueBackpressure;
use crate::timeout_coord::downlink_timeout_coordinator;
use swimos_agent_protocol::encoding::downlink::DownlinkOperationEncoder;
use swimos_agent_protocol::DownlinkOperation;
use swimos_messages::protocol::{RawRequestMessageDecoder, RequestMessage};
use swimos_utilities::byte_channel;
use swimos_utilities::non_zero_usize;

#[derive(Clone, Copy, Debug)]
enum Op {
    Attach { sync: bool },
    Cmd(usize),
    Drain,
}
fn universe() -> Vec<Op> {
    vec![Op::Attach { sync: false }, Op::Attach { sync: true }, Op::Cmd(0), Op::Cmd(1), Op::Drain]
}

async fn settle() {
    for _ in 0..24 {
        tokio::task::yield_now().await;
    }
}

async fn run_sequence(seq: &[Op]) -> Result<bool, String> {
    let (msg_tx, msg_rx) = byte_channel::byte_channel(non_zero_usize!(64));
    let mut remote = FramedRead::new(msg_rx, RawRequestMessageDecoder);
    let (producers_tx, producers_rx) = mpsc::channel(8);
    let config = DownlinkRuntimeConfig {
        empty_timeout: Duration::from_secs(100_000),
        attachment_queue_size: non_zero_usize!(8),
        abort_on_bad_frames: true,
        remote_buffer_size: non_zero_usize!(64),
        downlink_buffer_size: non_zero_usize!(4096),
    };
    let (_read_voter, write_voter, _vote_rx) = downlink_timeout_coordinator();
    let task = tokio::spawn(write_task(
        msg_tx,
        producers_rx,
        Uuid::from_u128(2),
        RelativeAddress::new(Text::new("/node"), Text::new("lane")),
        config,
        ValueBackpressure::default(),
        write_voter,
    ));
    let mut consumers: Vec<FramedWrite<ByteWriter, DownlinkOperationEncoder>> = vec![];
    let mut next_cmd = 1i64;
    let mut last_cmd = 0i64;
    let mut last_seen = 0i64;
    let mut linked = false;
    let mut sync_owed = false;
    let mut all: Vec<Op> = seq.to_vec();
    all.push(Op::Drain);
    for (step, op) in all.iter().enumerate() {
        match *op {
            Op::Attach { sync } => {
                if consumers.len() >= 3 {
                    task.abort();
                    return Ok(false);
                }
                let (tx, rx) = byte_channel::byte_channel(non_zero_usize!(4096));
                let options = if sync { DownlinkOptions::SYNC } else { DownlinkOptions::empty() };
                producers_tx.send((rx, options)).await.map_err(|_| format!("step {step}: the write task stopped"))?;
                consumers.push(FramedWrite::new(tx, DownlinkOperationEncoder::default()));
                if sync {
                    sync_owed = true;
                }
            }
            Op::Cmd(i) => {
                if i >= consumers.len() {
                    task.abort();
                    return Ok(false);
                }
                let v = next_cmd;
                next_cmd += 1;
                // a body long enough that a single frame exceeds the 64-byte output channel
                let body = format!("{v:060}");
                consumers[i].send(DownlinkOperation::new(body)).await.map_err(|e| format!("step {step}: {e}"))?;
                last_cmd = v;
            }
            Op::Drain => {
                let mut saw_sync = false;
                let mut empty = 0;
                while empty < 6 {
                    match remote.next().now_or_never() {
                        Some(Some(Ok(RequestMessage { envelope, .. }))) => {
                            empty = 0;
                            match envelope {
                                Operation::Link => {
                                    if linked {
                                        return Err(format!("step {step}: a second link request"));
                                    }
                                    linked = true;
                                }
                                _ if !linked => return Err(format!("step {step}: the first frame is not the link request")),
                                Operation::Sync => saw_sync = true,
                                Operation::Command(body) => {
                                    let n: i64 = std::str::from_utf8(body.as_ref()).map_err(|e| e.to_string())?.trim_matches('"').parse().map_err(|_| format!("step {step}: bad command body {:?}", body))?;
                                    if n <= last_seen {
                                        return Err(format!("step {step}: command {n} was sent to the lane after command {last_seen}"));
                                    }
                                    if n > last_cmd {
                                        return Err(format!("step {step}: command {n} was never issued"));
                                    }
                                    last_seen = n;
                                }
                                Operation::Unlink => return Err(format!("step {step}: unexpected unlink")),
                            }
                        }
                        Some(Some(Err(e))) => return Err(format!("step {step}: bad frame: {e}")),
                        Some(None) => return Err(format!("step {step}: the write task closed the connection")),
                        None => {
                            empty += 1;
                            settle().await;
                        }
                    }
                }
                if !linked {
                    return Err(format!("step {step}: no link request was sent"));
                }
                if last_seen != last_cmd {
                    return Err(format!("step {step}: the task is quiescent and the output drained; the last command on the wire is {last_seen} but the last command issued is {last_cmd}"));
                }
                if sync_owed && !saw_sync {
                    return Err(format!("step {step}: a consumer asked to be synced but no sync request reached the remote"));
                }
                sync_owed = false;
            }
        }
        settle().await;
        if task.is_finished() {
            return Err(format!("step {step}: the write task stopped"));
        }
    }
    task.abort();
    Ok(true)
}

#[test]
fn downlink_write_task_contract() {
    let depth: usize = std::env::var("VERIF_BX_DEPTH").ok().and_then(|s| s.parse().ok()).unwrap_or(6);
    let ops = universe();
    let rt = tokio::runtime::Builder::new_current_thread().enable_time().build().expect("runtime");
    let mut evaluations = 0usize;
    let mut nontrivial = 0usize;
    let mut failure: Option<String> = None;
    let mut idx = vec![0usize; depth];
    'outer: for len in 1..=depth {
        idx.iter_mut().for_each(|i| *i = 0);
        loop {
            let seq: Vec<Op> = idx[..len].iter().map(|i| ops[*i]).collect();
            evaluations += 1;
            match rt.block_on(run_sequence(&seq)) {
                Ok(true) => nontrivial += 1,
                Ok(false) => {}
                Err(e) => {
                    failure = Some(format!("{:?} => {}", seq, e));
                    break 'outer;
                }
            }
            let mut k = 0;
            loop {
                if k == len {
                    break;
                }
                idx[k] += 1;
                if idx[k] < ops.len() {
                    break;
                }
                idx[k] = 0;
                k += 1;
            }
            if k == len {
                break;
            }
        }
    }
    println!("BX-SAMPLE depth={depth} inputs {{attach(no sync), attach(sync), command from consumer 0/1, drain}}; e.g. [Attach(no sync), Cmd(0), Attach(sync), Cmd(0), Drain]");
    match failure {
        None => println!("BX-OBL downlink_write_task::commands_in_order_last_one_sent_and_syncs_requested ok evaluations={evaluations} distinct={nontrivial}"),
        Some(w) => {
            println!("BX-FAIL downlink_write_task::commands_in_order_last_one_sent_and_syncs_requested witness={w}");
            panic!("contract violated");
        }
    }
}
