// BOUNDED contract check of the binary frame codecs of swimos_agent_protocol -- property C10.
// (The resumable decoders are state machines over BytesMut with `format!` error paths and generic inner codecs; bringing
// them under Verus needs a framing theory for generic inner decoders that is not built yet -- see DESIGN.md. This harness is
// the bounded stand-in.)
// For every codec pair and every stream of one or two messages from a small universe (empty and non-empty payloads):
//   fragmentation: for EVERY way of cutting the stream into two chunks (and three chunks for short streams) the decoder yields
//                  exactly the messages that decoding the unsplit stream yields, exactly as many as were encoded, re-encoding
//                  them gives back the stream (where the decoded type can be re-encoded), and no byte is left over;
//   robustness:    every prefix of the stream, every tag byte replaced by every value, and small changes to every non-zero
//                  byte produce Ok/Err -- never a panic and never a hang (zero bytes are left alone so that corrupt lengths
//                  stay small: a huge corrupt length makes `reserve` abort the process, which is inherent in the framing).
use crate::encoding::command::*;
use crate::encoding::downlink::*;
use crate::encoding::lane::*;
use crate::encoding::map::*;
use crate::encoding::store::*;
use crate::*;
use bytes::{Bytes, BytesMut};
use std::fmt::Debug;
use std::panic::{catch_unwind, AssertUnwindSafe};
use swimos_api::address::Address;
use swimos_utilities::encoding::BytesStr;
use tokio_util::codec::{Decoder, Encoder};
use uuid::Uuid;

struct Outcome {
    items: Vec<String>,
    reencoded: Option<Vec<u8>>,
    leftover: usize,
}

fn drive<D, F>(mut dec: D, chunks: &[&[u8]], reenc: &F) -> Result<Outcome, String>
where
    D: Decoder,
    D::Item: Debug,
    D::Error: Debug,
    F: Fn(D::Item, &mut BytesMut) -> bool,
{
    let mut buf = BytesMut::new();
    let mut items = vec![];
    let mut re = BytesMut::new();
    let mut can_re = true;
    for c in chunks {
        buf.extend_from_slice(c);
        let mut guard = 0;
        loop {
            guard += 1;
            if guard > 10_000 {
                return Err("decoder does not terminate (more than 10000 decode calls on one chunk)".into());
            }
            match dec.decode(&mut buf) {
                Ok(Some(item)) => {
                    items.push(format!("{:?}", item));
                    can_re &= reenc(item, &mut re);
                }
                Ok(None) => break,
                Err(e) => return Err(format!("decode error {:?}", e)),
            }
        }
    }
    Ok(Outcome { items, reencoded: if can_re { Some(re.to_vec()) } else { None }, leftover: buf.len() })
}

// A frame whose Recon BODY is corrupt (its header and length field are intact) followed by a good frame: whatever the cuts,
// the corrupt frame is reported as ONE error and the good frame is then decoded exactly (the stream is not desynchronised).
// VERIF_BX_FILTER=a,b: only the codec pairs whose name contains one of the given substrings, fragmentation obligations only
// (used where this harness serves as the concrete-witness finder next to a Verus unit of another property)
fn filtered_out(name: &str) -> bool {
    match std::env::var("VERIF_BX_FILTER") {
        Ok(f) if !f.is_empty() => !f.split(',').any(|p| name.contains(p)),
        _ => false,
    }
}
fn filter_active() -> bool { std::env::var("VERIF_BX_FILTER").map(|f| !f.is_empty()).unwrap_or(false) }

fn check_resync<D>(name: &str, corrupt: &[u8], good: &[u8], mk: &dyn Fn() -> D, rep: &mut Report)
where
    D: Decoder,
    D::Item: Debug,
    D::Error: Debug,
{
    if rep.mode != Mode::Fragmentation || filtered_out(name) {
        return;
    }
    let mut stream = corrupt.to_vec();
    stream.extend_from_slice(good);
    let expected: Vec<String> = {
        let mut d = mk();
        let mut b = BytesMut::from(good);
        match d.decode(&mut b) {
            Ok(Some(item)) => vec![format!("{:?}", item)],
            ow => {
                rep.resync.insert(name.to_string(), Err(format!("{name}: the good frame {:?} does not decode: {:?}", good, ow)));
                return;
            }
        }
    };
    let mut evals = 0usize;
    let run = |chunks: &[&[u8]]| -> Result<(usize, Vec<String>, usize), String> {
        let mut dec = mk();
        let mut buf = BytesMut::new();
        let mut errors = 0;
        let mut items = vec![];
        for c in chunks {
            buf.extend_from_slice(c);
            let mut guard = 0;
            loop {
                guard += 1;
                if guard > 10_000 {
                    return Err("decoder does not terminate".into());
                }
                match dec.decode(&mut buf) {
                    Ok(Some(item)) => items.push(format!("{:?}", item)),
                    Ok(None) => break,
                    Err(_) => errors += 1,
                }
            }
        }
        Ok((errors, items, buf.len()))
    };
    for i in 0..=stream.len() {
        for j in i..=stream.len() {
            evals += 1;
            let r = catch_unwind(AssertUnwindSafe(|| run(&[&stream[..i], &stream[i..j], &stream[j..]])));
            let bad = match r {
                Ok(Ok((1, items, 0))) if items == expected => None,
                Ok(Ok((e, items, left))) => Some(format!("{e} errors, decoded {:?}, {left} bytes left; expected one error and then {:?}", items, expected)),
                Ok(Err(e)) => Some(e),
                Err(_) => Some("decoder panicked".to_string()),
            };
            if let Some(b) = bad {
                rep.resync.insert(name.to_string(), Err(format!("{name}: corrupt-body frame {:?} followed by {:?}, cut at {i},{j}: {b}", corrupt, good)));
                return;
            }
        }
    }
    rep.resync.insert(name.to_string(), Ok(evals));
}

#[derive(Clone, Copy, PartialEq)]
enum Mode {
    Fragmentation,
    // robustness variants run in a child process (a corrupt length can make BytesMut::reserve ABORT the process);
    // `skip` = number of variants already done by earlier children, progress is written to the file before each variant
    Robustness { skip: usize },
}
struct Report {
    mode: Mode,
    evaluations: usize,
    variant: usize,
    progress: Option<std::path::PathBuf>,
    frag_fail: std::collections::BTreeMap<String, String>,
    robust_fail: std::collections::BTreeMap<String, String>,
    resync: std::collections::BTreeMap<String, Result<usize, String>>,
    codecs: Vec<String>,
}

fn check_codec<D, F>(name: &str, has_tag: bool, frames: &[Vec<u8>], mk: &dyn Fn() -> D, reenc: &F, rep: &mut Report)
where
    D: Decoder,
    D::Item: Debug,
    D::Error: Debug,
    F: Fn(D::Item, &mut BytesMut) -> bool,
{
    if filtered_out(name) {
        return;
    }
    if !rep.codecs.iter().any(|c| c == name) {
        rep.codecs.push(name.to_string());
    }
    // streams of one and two frames
    let mut streams: Vec<(Vec<u8>, usize, Vec<usize>)> = vec![];
    for a in frames {
        streams.push((a.clone(), 1, vec![0]));
        for b in frames {
            let mut s = a.clone();
            s.extend_from_slice(b);
            streams.push((s, 2, vec![0, a.len()]));
        }
    }
    for (stream, n, starts) in &streams {
        if rep.mode != Mode::Fragmentation {
            robustness(name, has_tag, stream, starts, mk, reenc, rep);
            continue;
        }
        rep.evaluations += 1;
        let whole = match drive(mk(), &[stream.as_slice()], reenc) {
            Ok(o) => o,
            Err(e) => {
                rep.frag_fail.entry(name.to_string()).or_insert(format!("{name}: unsplit stream {:?} failed: {e}", stream));
                continue;
            }
        };
        if whole.items.len() != *n || whole.leftover != 0 {
            rep.frag_fail.entry(name.to_string()).or_insert(format!("{name}: stream {:?} of {n} messages decoded to {:?} with {} bytes left over", stream, whole.items, whole.leftover));
            continue;
        }
        if let Some(re) = &whole.reencoded {
            if re != stream {
                rep.frag_fail.entry(name.to_string()).or_insert(format!("{name}: decoding {:?} and re-encoding gives {:?} (decoded {:?})", stream, re, whole.items));
            }
        }
        // every 2-chunk split, and every 3-chunk split of short streams
        for i in 0..=stream.len() {
            rep.evaluations += 1;
            let r = catch_unwind(AssertUnwindSafe(|| drive(mk(), &[&stream[..i], &stream[i..]], reenc)));
            match r {
                Ok(Ok(o)) if o.items == whole.items && o.leftover == 0 => {}
                Ok(Ok(o)) => {
                    rep.frag_fail.entry(name.to_string()).or_insert(format!("{name}: stream {:?} cut at {i} decoded to {:?} (+{} bytes left), unsplit gives {:?}", stream, o.items, o.leftover, whole.items));
                }
                Ok(Err(e)) => {
                    rep.frag_fail.entry(name.to_string()).or_insert(format!("{name}: stream {:?} cut at {i}: {e}; unsplit gives {:?}", stream, whole.items));
                }
                Err(e) => {
                    let msg = e.downcast_ref::<String>().cloned().or_else(|| e.downcast_ref::<&str>().map(|s| s.to_string())).unwrap_or_default();
                    rep.frag_fail.entry(name.to_string()).or_insert(format!("{name}: stream {:?} cut at {i}: decoder panicked: {msg}", stream));
                }
            }
            if stream.len() <= 48 {
                for j in i..=stream.len() {
                    rep.evaluations += 1;
                    let r = catch_unwind(AssertUnwindSafe(|| drive(mk(), &[&stream[..i], &stream[i..j], &stream[j..]], reenc)));
                    match r {
                        Ok(Ok(o)) if o.items == whole.items && o.leftover == 0 => {}
                        Ok(Ok(o)) => {
                            rep.frag_fail.entry(name.to_string()).or_insert(format!("{name}: stream {:?} cut at {i},{j} decoded to {:?} (+{} left), unsplit gives {:?}", stream, o.items, o.leftover, whole.items));
                        }
                        Ok(Err(e)) => {
                            rep.frag_fail.entry(name.to_string()).or_insert(format!("{name}: stream {:?} cut at {i},{j}: {e}", stream));
                        }
                        Err(_) => {
                            rep.frag_fail.entry(name.to_string()).or_insert(format!("{name}: stream {:?} cut at {i},{j}: decoder panicked", stream));
                        }
                    }
                }
            }
        }
    }
}

fn robustness<D, F>(name: &str, has_tag: bool, stream: &Vec<u8>, starts: &Vec<usize>, mk: &dyn Fn() -> D, reenc: &F, rep: &mut Report)
where
    D: Decoder,
    D::Item: Debug,
    D::Error: Debug,
    F: Fn(D::Item, &mut BytesMut) -> bool,
{
    let skip = match rep.mode {
        Mode::Robustness { skip } => skip,
        _ => return,
    };
    {
        // prefixes, tag bytes, small changes of non-zero bytes; whole and cut in the middle
        let mut variants: Vec<Vec<u8>> = vec![];
        for i in 0..stream.len() {
            variants.push(stream[..i].to_vec());
        }
        if has_tag {
            for s in starts {
                for t in 0..=255u8 {
                    let mut v = stream.clone();
                    if *s < v.len() {
                        v[*s] = t;
                        variants.push(v);
                    }
                }
            }
        }
        for p in 0..stream.len() {
            if stream[p] != 0 {
                for nb in [stream[p] ^ 1, stream[p].wrapping_add(1), stream[p].wrapping_sub(1), stream[p].wrapping_add(7), 0] {
                    let mut v = stream.clone();
                    v[p] = nb;
                    variants.push(v);
                }
            }
        }
        for v in variants {
            rep.variant += 1;
            if rep.variant <= skip {
                continue;
            }
            if let Some(p) = &rep.progress {
                let _ = std::fs::write(p, format!("{}\n{name}: corrupt stream {:?} (from {:?})", rep.variant, v, stream));
            }
            rep.evaluations += 1;
            let mid = v.len() / 2;
            for chunks in [vec![&v[..]], vec![&v[..mid], &v[mid..]]] {
                let r = catch_unwind(AssertUnwindSafe(|| drive(mk(), &chunks, reenc)));
                match r {
                    Ok(Ok(_)) => {}
                    Ok(Err(e)) if e.starts_with("decoder does not terminate") => {
                        rep.robust_fail.entry(name.to_string()).or_insert(format!("{name}: corrupt stream {:?}: {e}", v));
                    }
                    Ok(Err(_)) => {}
                    Err(_) => {
                        rep.robust_fail.entry(name.to_string()).or_insert(format!("{name}: corrupt stream {:?} (from {:?}) makes the decoder panic", v, stream));
                    }
                }
            }
        }
    }
}

fn enc<E, T>(mut e: E, item: T) -> Vec<u8>
where
    E: Encoder<T>,
    E::Error: Debug,
{
    let mut b = BytesMut::new();
    e.encode(item, &mut b).expect("encode failed");
    b.to_vec()
}

fn no_reenc<T>(_: T, _: &mut BytesMut) -> bool {
    false
}

const B: [&[u8]; 3] = [b"", b"x", b"@a{1}"];

fn map_messages() -> Vec<MapMessage<&'static [u8], &'static [u8]>> {
    let mut v = vec![MapMessage::Clear, MapMessage::Take(0), MapMessage::Take(3), MapMessage::Drop(2)];
    for k in B {
        v.push(MapMessage::Remove { key: k });
        for x in B {
            v.push(MapMessage::Update { key: k, value: x });
        }
    }
    v
}
fn map_operations() -> Vec<MapOperation<&'static [u8], &'static [u8]>> {
    let mut v = vec![MapOperation::Clear];
    for k in B {
        v.push(MapOperation::Remove { key: k });
        for x in B {
            v.push(MapOperation::Update { key: k, value: x });
        }
    }
    v
}

fn run_all(rep: &mut Report) {
    // (the high-order bytes of the id are zero so that a corrupt tag cannot turn them into a huge length)
    let id = Uuid::from_u128(0x0a0b);

    // ---- lane requests / responses (raw value)
    let frames: Vec<Vec<u8>> = B.iter().map(|b| enc(RawValueLaneRequestEncoder::default(), LaneRequest::Command(*b)))
        .chain([enc(RawValueLaneRequestEncoder::default(), LaneRequest::<&[u8]>::Sync(id)), enc(RawValueLaneRequestEncoder::default(), LaneRequest::<&[u8]>::InitComplete)]).collect();
    check_codec("RawValueLaneRequest", true, &frames, &RawValueLaneRequestDecoder::default,
        &|item: LaneRequest<BytesMut>, out: &mut BytesMut| RawValueLaneRequestEncoder::default().encode(item, out).is_ok(), rep);

    let frames: Vec<Vec<u8>> = B.iter().flat_map(|b| [enc(RawValueLaneResponseEncoder::default(), LaneResponse::StandardEvent(*b)), enc(RawValueLaneResponseEncoder::default(), LaneResponse::SyncEvent(id, *b))])
        .chain([enc(RawValueLaneResponseEncoder::default(), LaneResponse::<&[u8]>::Initialized), enc(RawValueLaneResponseEncoder::default(), LaneResponse::<&[u8]>::Synced(id))]).collect();
    check_codec("RawValueLaneResponse", true, &frames, &RawValueLaneResponseDecoder::default,
        &|item: LaneResponse<BytesMut>, out: &mut BytesMut| RawValueLaneResponseEncoder::default().encode(item, out).is_ok(), rep);

    // ---- map operations / messages
    let frames: Vec<Vec<u8>> = map_operations().into_iter().map(|op| enc(RawMapOperationEncoder::default(), op)).collect();
    check_codec("RawMapOperation", true, &frames, &RawMapOperationDecoder::default,
        &|item: MapOperation<BytesMut, BytesMut>, out: &mut BytesMut| RawMapOperationEncoder::default().encode(item, out).is_ok(), rep);

    let frames: Vec<Vec<u8>> = map_messages().into_iter().map(|m| enc(RawMapMessageEncoder::default(), m)).collect();
    check_codec("RawMapMessage", true, &frames, &RawMapMessageDecoder::default,
        &|item: MapMessage<BytesMut, BytesMut>, out: &mut BytesMut| RawMapMessageEncoder::default().encode(item, out).is_ok(), rep);

    // ---- TYPED (Recon-bodied) map operations / messages: the decoder of typed map lane commands and of map downlink events
    let ops: Vec<MapOperation<i32, i32>> = vec![MapOperation::Update { key: 1, value: 2 }, MapOperation::Remove { key: 12 }, MapOperation::Clear,
        MapOperation::Update { key: -5, value: 100 }, MapOperation::Remove { key: 123 }];
    let frames: Vec<Vec<u8>> = ops.iter().map(|op| enc(MapOperationEncoder::default(), op.clone())).collect();
    check_codec("MapOperation(typed i32)", true, &frames, &MapOperationDecoder::<i32, i32>::default,
        &|item: MapOperation<i32, i32>, out: &mut BytesMut| MapOperationEncoder::default().encode(item, out).is_ok(), rep);
    let msgs: Vec<MapMessage<i32, i32>> = vec![MapMessage::Update { key: 1, value: 2 }, MapMessage::Remove { key: 12 }, MapMessage::Clear, MapMessage::Take(3),
        MapMessage::Drop(1), MapMessage::Update { key: -5, value: 100 }, MapMessage::Remove { key: 123 }];
    let frames: Vec<Vec<u8>> = msgs.iter().map(|m| enc(MapMessageEncoder::default(), m.clone())).collect();
    check_codec("MapMessage(typed i32)", true, &frames, &MapMessageDecoder::<i32, i32>::default,
        &|item: MapMessage<i32, i32>, out: &mut BytesMut| MapMessageEncoder::default().encode(item, out).is_ok(), rep);

    // ---- TYPED lane requests / responses (what the agent's lanes read and write)
    let frames: Vec<Vec<u8>> = [7i32, -12345, 0].iter().map(|n| enc(ValueLaneRequestEncoder::default(), LaneRequest::Command(*n)))
        .chain([enc(ValueLaneRequestEncoder::default(), LaneRequest::<i32>::Sync(id)), enc(ValueLaneRequestEncoder::default(), LaneRequest::<i32>::InitComplete)]).collect();
    check_codec("ValueLaneRequest(typed i32)", true, &frames, &ValueLaneRequestDecoder::<i32>::default, &no_reenc::<LaneRequest<i32>>, rep);
    let frames: Vec<Vec<u8>> = msgs.iter().map(|m| enc(MapLaneRequestEncoder::default(), LaneRequest::Command(m.clone())))
        .chain([enc(MapLaneRequestEncoder::default(), LaneRequest::<MapMessage<i32, i32>>::Sync(id)), enc(MapLaneRequestEncoder::default(), LaneRequest::<MapMessage<i32, i32>>::InitComplete)]).collect();
    check_codec("MapLaneRequest(typed i32)", true, &frames, &MapLaneRequestDecoder::<i32, i32>::default, &no_reenc::<LaneRequest<MapMessage<i32, i32>>>, rep);
    let frames: Vec<Vec<u8>> = [7i32, -9].iter().flat_map(|n| [enc(ValueLaneResponseEncoder::default(), LaneResponse::StandardEvent(*n)), enc(ValueLaneResponseEncoder::default(), LaneResponse::SyncEvent(id, *n))])
        .chain([enc(ValueLaneResponseEncoder::default(), LaneResponse::<i32>::Initialized), enc(ValueLaneResponseEncoder::default(), LaneResponse::<i32>::Synced(id))]).collect();
    check_codec("ValueLaneResponse(typed i32)", true, &frames, &ValueLaneResponseDecoder::<i32>::default, &no_reenc::<LaneResponse<i32>>, rep);
    let frames: Vec<Vec<u8>> = ops.iter().take(4).flat_map(|op| [enc(MapLaneResponseEncoder::default(), LaneResponse::StandardEvent(op.clone())), enc(MapLaneResponseEncoder::default(), LaneResponse::SyncEvent(id, op.clone()))])
        .chain([enc(MapLaneResponseEncoder::default(), MapLaneResponse::<i32, i32>::Synced(id))]).collect();
    check_codec("MapLaneResponse(typed i32)", true, &frames, &MapLaneResponseDecoder::<i32, i32>::default, &no_reenc::<LaneResponse<MapOperation<i32, i32>>>, rep);
    // ---- TYPED map downlink notifications (the body is a typed map message, bounded by the announced length)
    let frames: Vec<Vec<u8>> = msgs.iter().map(|m| { let body = enc(MapMessageEncoder::default(), m.clone()); enc(DownlinkNotificationEncoder, DownlinkNotification::Event { body: body.as_slice() }) })
        .chain([enc(DownlinkNotificationEncoder, DownlinkNotification::<&[u8]>::Linked), enc(DownlinkNotificationEncoder, DownlinkNotification::<&[u8]>::Synced), enc(DownlinkNotificationEncoder, DownlinkNotification::<&[u8]>::Unlinked)]).collect();
    check_codec("DownlinkNotification(typed map messages)", true, &frames, &MapNotificationDecoder::<i32, i32>::default, &no_reenc::<DownlinkNotification<MapMessage<i32, i32>>>, rep);

    // ---- lane requests / responses (raw map)
    let frames: Vec<Vec<u8>> = map_messages().into_iter().take(8).map(|m| enc(RawMapLaneRequestEncoder::default(), LaneRequest::Command(m)))
        .chain([enc(RawMapLaneRequestEncoder::default(), LaneRequest::<MapMessage<&[u8], &[u8]>>::Sync(id)), enc(RawMapLaneRequestEncoder::default(), LaneRequest::<MapMessage<&[u8], &[u8]>>::InitComplete)]).collect();
    check_codec("RawMapLaneRequest", true, &frames, &RawMapLaneRequestDecoder::default,
        &|item: LaneRequest<MapMessage<BytesMut, BytesMut>>, out: &mut BytesMut| RawMapLaneRequestEncoder::default().encode(item, out).is_ok(), rep);

    let frames: Vec<Vec<u8>> = map_operations().into_iter().take(6).flat_map(|op| [enc(RawMapLaneResponseEncoder::default(), LaneResponse::StandardEvent(op)), enc(RawMapLaneResponseEncoder::default(), LaneResponse::SyncEvent(id, op))])
        .chain([enc(RawMapLaneResponseEncoder::default(), MapLaneResponse::<&[u8], &[u8]>::Initialized), enc(RawMapLaneResponseEncoder::default(), MapLaneResponse::<&[u8], &[u8]>::Synced(id))]).collect();
    check_codec("RawMapLaneResponse", true, &frames, &RawMapLaneResponseDecoder::default,
        &|item: LaneResponse<MapOperation<BytesMut, BytesMut>>, out: &mut BytesMut| RawMapLaneResponseEncoder::default().encode(item, out).is_ok(), rep);

    // ---- store initialisation / responses
    let frames: Vec<Vec<u8>> = B.iter().map(|b| enc(RawValueStoreInitEncoder::default(), StoreInitMessage::Command(*b)))
        .chain([enc(RawValueStoreInitEncoder::default(), StoreInitMessage::<&[u8]>::InitComplete)]).collect();
    check_codec("RawValueStoreInit", true, &frames, &RawValueStoreInitDecoder::default,
        &|item: StoreInitMessage<BytesMut>, out: &mut BytesMut| RawValueStoreInitEncoder::default().encode(item, out).is_ok(), rep);

    let frames: Vec<Vec<u8>> = map_messages().into_iter().take(8).map(|m| enc(RawMapStoreInitEncoder::default(), StoreInitMessage::Command(m)))
        .chain([enc(RawMapStoreInitEncoder::default(), StoreInitMessage::<MapMessage<&[u8], &[u8]>>::InitComplete)]).collect();
    check_codec("RawMapStoreInit", true, &frames, &RawMapStoreInitDecoder::default,
        &|item: StoreInitMessage<MapMessage<BytesMut, BytesMut>>, out: &mut BytesMut| RawMapStoreInitEncoder::default().encode(item, out).is_ok(), rep);

    let frames = vec![enc(StoreInitializedCodec, StoreInitialized)];
    check_codec("StoreInitialized", false, &frames, &|| StoreInitializedCodec,
        &|item: StoreInitialized, out: &mut BytesMut| StoreInitializedCodec.encode(item, out).is_ok(), rep);

    let frames: Vec<Vec<u8>> = [0i32, 7, -12345].iter().map(|n| enc(ValueStoreResponseEncoder::default(), StoreResponse::new(*n))).collect();
    check_codec("ValueStoreResponse(raw decoder)", false, &frames, &RawValueStoreResponseDecoder::default, &no_reenc::<StoreResponse<BytesMut>>, rep);

    let frames: Vec<Vec<u8>> = [MapOperation::Update { key: 1i32, value: 2i32 }, MapOperation::Remove { key: 5 }, MapOperation::Clear].into_iter()
        .map(|op| enc(MapStoreResponseEncoder::default(), StoreResponse::new(op))).collect();
    check_codec("MapStoreResponse(raw decoder)", false, &frames, &RawMapStoreResponseDecoder::default, &no_reenc::<StoreResponse<MapOperation<BytesMut, BytesMut>>>, rep);

    // ---- downlink notifications / operations
    let frames: Vec<Vec<u8>> = [b"1".as_slice(), b"-77", b"12"].iter().map(|b| enc(DownlinkNotificationEncoder, DownlinkNotification::Event { body: *b }))
        .chain([enc(DownlinkNotificationEncoder, DownlinkNotification::<&[u8]>::Linked), enc(DownlinkNotificationEncoder, DownlinkNotification::<&[u8]>::Synced), enc(DownlinkNotificationEncoder, DownlinkNotification::<&[u8]>::Unlinked)]).collect();
    check_codec("DownlinkNotification(i32 bodies)", true, &frames, &ValueNotificationDecoder::<i32>::default, &no_reenc::<DownlinkNotification<i32>>, rep);
    // text bodies, including tokens that start with a multi-byte character (cuts inside a character)
    let frames: Vec<Vec<u8>> = ["a".as_bytes(), "\u{e9}".as_bytes(), "\"x y\"".as_bytes(), "\u{65e5}\u{672c}".as_bytes()].iter()
        .map(|b| enc(DownlinkNotificationEncoder, DownlinkNotification::Event { body: *b })).collect();
    check_codec("DownlinkNotification(text bodies)", true, &frames, &ValueNotificationDecoder::<String>::default, &no_reenc::<DownlinkNotification<String>>, rep);
    // a corrupt Recon body must not desynchronise the stream
    check_resync("DownlinkNotification(i32 bodies)", &enc(DownlinkNotificationEncoder, DownlinkNotification::Event { body: b"}}}}}}}}".as_slice() }),
        &enc(DownlinkNotificationEncoder, DownlinkNotification::Event { body: b"7".as_slice() }), &ValueNotificationDecoder::<i32>::default, rep);

    let frames: Vec<Vec<u8>> = [0i32, 42, -9].iter().map(|n| enc(DownlinkOperationEncoder::default(), DownlinkOperation::new(*n))).collect();
    check_codec("DownlinkOperation", false, &frames, &DownlinkOperationDecoder::default, &no_reenc::<DownlinkOperation<Bytes>>, rep);

    // ---- ad hoc command messages
    let addrs = [Address::new(None, "/n", "l"), Address::new(Some("h:1"), "/node", "lane"), Address::new(Some(""), "", "")];
    let mut frames: Vec<Vec<u8>> = vec![];
    for a in &addrs {
        frames.push(enc(RawCommandMessageEncoder::default(), CommandMessage::<&str, &[u8]>::Register { address: a.clone(), id: 3 }));
        for b in B {
            for ow in [false, true] {
                frames.push(enc(RawCommandMessageEncoder::default(), CommandMessage::<&str, &[u8]>::Addressed { target: a.clone(), command: b, overwrite_permitted: ow }));
            }
        }
    }
    for b in B {
        frames.push(enc(RawCommandMessageEncoder::default(), CommandMessage::<&str, &[u8]>::Registered { target: 3, command: b, overwrite_permitted: true }));
    }
    check_codec("RawCommandMessage", true, &frames, &RawCommandMessageDecoder::<BytesStr>::default,
        &|item: CommandMessage<BytesStr, BytesMut>, out: &mut BytesMut| RawCommandMessageEncoder::default().encode(item, out).is_ok(), rep);

}

// child: runs the robustness variants from VERIF_BX_SKIP on, writing its progress before every variant
#[test]
fn codec_robustness_child() {
    let progress = match std::env::var("VERIF_BX_PROGRESS") {
        Ok(p) => std::path::PathBuf::from(p),
        Err(_) => return,
    };
    let skip: usize = std::env::var("VERIF_BX_SKIP").ok().and_then(|s| s.parse().ok()).unwrap_or(0);
    std::panic::set_hook(Box::new(|_| {}));
    let mut rep = Report { mode: Mode::Robustness { skip }, evaluations: 0, variant: 0, progress: Some(progress.clone()), frag_fail: Default::default(), robust_fail: Default::default(), resync: Default::default(), codecs: vec![] };
    run_all(&mut rep);
    let fails: Vec<String> = rep.robust_fail.iter().map(|(k, v)| format!("{k}\t{v}")).collect();
    let _ = std::fs::write(&progress, format!("done {} {}\n{}", rep.variant, rep.evaluations, fails.join("\n")));
}

#[test]
fn codec_contract() {
    if std::env::var("VERIF_BX_PROGRESS").is_ok() {
        return;
    }
    let prev = std::panic::take_hook();
    std::panic::set_hook(Box::new(|_| {}));
    let mut rep = Report { mode: Mode::Fragmentation, evaluations: 0, variant: 0, progress: None, frag_fail: Default::default(), robust_fail: Default::default(), resync: Default::default(), codecs: vec![] };
    run_all(&mut rep);
    // robustness in child processes
    let progress = std::env::temp_dir().join(format!("verif_bx_codecs_progress_{}", std::process::id()));
    let mut skip = 0usize;
    let mut aborts: Vec<String> = vec![];
    let mut robust_evals = 0usize;
    // (each abort costs a child process; after 60 of them the remaining corrupt variants are not run -- BOUNDED)
    for _round in 0..(if filter_active() { 0 } else { 60 }) {
        let _ = std::fs::remove_file(&progress);
        let st = std::process::Command::new(std::env::current_exe().unwrap())
            .args(["codec_robustness_child", "--nocapture", "--test-threads", "1"])
            .env("VERIF_BX_PROGRESS", &progress)
            .env("VERIF_BX_SKIP", skip.to_string())
            .stdout(std::process::Stdio::null())
            .stderr(std::process::Stdio::null())
            .status();
        let txt = std::fs::read_to_string(&progress).unwrap_or_default();
        if let Some(rest) = txt.strip_prefix("done ") {
            let mut it = rest.lines();
            let head: Vec<&str> = it.next().unwrap_or("").split(' ').collect();
            robust_evals += head.get(1).and_then(|s| s.parse::<usize>().ok()).unwrap_or(0);
            for l in it {
                if let Some((k, v)) = l.split_once('\t') {
                    rep.robust_fail.entry(k.to_string()).or_insert(v.to_string());
                }
            }
            break;
        }
        // the child died (abort): the progress file names the variant that killed it
        let mut it = txt.lines();
        let n: usize = it.next().and_then(|s| s.parse().ok()).unwrap_or(skip + 1);
        aborts.push(format!("{} [child status {:?}]", it.next().unwrap_or("?"), st.map(|s| s.code())));
        robust_evals += n.saturating_sub(skip);
        skip = n;
    }
    let _ = std::fs::remove_file(&progress);
    rep.evaluations += robust_evals;
    std::panic::set_hook(prev);
    println!("BX-SAMPLE 21 codec pairs of swimos_agent_protocol; streams of 1 and 2 messages, every 2-chunk cut, every 3-chunk cut of streams <= 48 bytes, prefixes/tag/small byte corruptions");
    let mut failed = false;
    let slug = |c: &str| c.replace(|ch: char| !ch.is_ascii_alphanumeric(), "_");
    for c in &rep.codecs {
        match rep.frag_fail.get(c) {
            None => println!("BX-OBL codecs::{}::fragmentation_independent_exact_round_trip ok evaluations={} distinct={}", slug(c), rep.evaluations / rep.codecs.len(), rep.evaluations / rep.codecs.len()),
            Some(w) => {
                println!("BX-FAIL codecs::{}::fragmentation_independent_exact_round_trip witness={w}", slug(c));
                failed = true;
            }
        }
        if filter_active() { continue; }
        match rep.robust_fail.get(c) {
            None => println!("BX-OBL codecs::{}::corrupt_input_gives_error_not_panic_or_hang ok evaluations={} distinct={}", slug(c), robust_evals / rep.codecs.len(), robust_evals / rep.codecs.len()),
            Some(w) => {
                println!("BX-FAIL codecs::{}::corrupt_input_gives_error_not_panic_or_hang witness={w}", slug(c));
                failed = true;
            }
        }
    }
    for (c, r) in &rep.resync {
        match r {
            Ok(n) => println!("BX-OBL codecs::{}::corrupt_body_does_not_desynchronise_the_stream ok evaluations={n} distinct={n}", slug(c)),
            Err(w) => {
                println!("BX-FAIL codecs::{}::corrupt_body_does_not_desynchronise_the_stream witness={w}", slug(c));
                failed = true;
            }
        }
    }
    if !filter_active() { match aborts.first() {
        None => println!("BX-OBL codecs::corrupt_input_does_not_abort_the_process ok evaluations={} distinct={}", robust_evals, robust_evals),
        Some(w) => {
            println!("BX-FAIL codecs::corrupt_input_does_not_abort_the_process witness={} corrupt streams abort the process, first: {w}", aborts.len());
            failed = true;
        }
    } }
    assert!(!failed, "contract violated");
}
