//! vx-index: dump a byte-range index of a Rust source file (items, fn signatures, blocks, loops,
//! breaks, closure-taking method calls, macro invocations, attributes) as JSON.
//! All *editing* is done by the python driver from these ranges; this tool never rewrites text.
use proc_macro2::Span;
use serde_json::{json, Value};
use syn::spanned::Spanned;
use syn::visit::{self, Visit};

fn rng(s: Span) -> Value {
    let r = s.byte_range();
    json!([r.start, r.end])
}
fn join(a: Span, b: Span) -> Value {
    let (x, y) = (a.byte_range(), b.byte_range());
    json!([x.start, y.end])
}
fn attrs_json(attrs: &[syn::Attribute]) -> Value {
    Value::Array(
        attrs
            .iter()
            .map(|a| {
                let p = a
                    .path()
                    .segments
                    .iter()
                    .map(|s| s.ident.to_string())
                    .collect::<Vec<_>>()
                    .join("::");
                json!({"range": rng(a.span()), "path": p})
            })
            .collect(),
    )
}
fn vis_json(v: &syn::Visibility) -> Value {
    match v {
        syn::Visibility::Inherited => Value::Null,
        _ => rng(v.span()),
    }
}
fn type_name(t: &syn::Type) -> String {
    match t {
        syn::Type::Path(p) => p
            .path
            .segments
            .last()
            .map(|s| s.ident.to_string())
            .unwrap_or_default(),
        syn::Type::Reference(r) => type_name(&r.elem),
        _ => String::new(),
    }
}

struct BodyVisitor {
    nodes: Vec<Value>,
    loop_ord: usize,
    loop_stack: Vec<usize>,
    closure_depth: usize,
}

impl BodyVisitor {
    fn enter_loop(&mut self, kind: &str, whole: Span, body: &syn::Block, label: &Option<syn::Label>) -> usize {
        let ord = self.loop_ord;
        self.loop_ord += 1;
        self.nodes.push(json!({
            "kind": kind, "ord": ord, "range": rng(whole), "body": rng(body.span()),
            "label": label.as_ref().map(|l| l.name.ident.to_string()),
            "in_closure": self.closure_depth > 0,
        }));
        ord
    }
}

impl<'ast> Visit<'ast> for BodyVisitor {
    fn visit_expr_loop(&mut self, e: &'ast syn::ExprLoop) {
        let ord = self.enter_loop("loop", e.span(), &e.body, &e.label);
        self.loop_stack.push(ord);
        visit::visit_expr_loop(self, e);
        self.loop_stack.pop();
    }
    fn visit_expr_while(&mut self, e: &'ast syn::ExprWhile) {
        let ord = self.enter_loop("while", e.span(), &e.body, &e.label);
        self.loop_stack.push(ord);
        visit::visit_expr_while(self, e);
        self.loop_stack.pop();
    }
    fn visit_expr_for_loop(&mut self, e: &'ast syn::ExprForLoop) {
        let mut cf = CtrlFinder { found: false };
        cf.visit_block(&e.body);
        self.nodes.push(json!({
            "kind": "for_parts", "ord": self.loop_ord, "range": rng(e.span()), "pat": rng(e.pat.span()),
            "expr": rng(e.expr.span()), "body": rng(e.body.span()), "body_has_ctrl": cf.found,
            "pat_is_ident": matches!(&*e.pat, syn::Pat::Ident(_)), "expr_is_ident": matches!(&*e.expr, syn::Expr::Path(_)),
            "in_closure": self.closure_depth > 0,
        }));
        let ord = self.enter_loop("for", e.span(), &e.body, &e.label);
        self.loop_stack.push(ord);
        visit::visit_expr_for_loop(self, e);
        self.loop_stack.pop();
    }
    fn visit_expr_break(&mut self, e: &'ast syn::ExprBreak) {
        self.nodes.push(json!({
            "kind": "break", "range": rng(e.span()), "kw": rng(e.break_token.span()),
            "value": e.expr.as_ref().map(|x| rng(x.span())),
            "label": e.label.as_ref().map(|l| l.ident.to_string()),
            "loop_ord": self.loop_stack.last(),
            "in_closure": self.closure_depth > 0,
        }));
        visit::visit_expr_break(self, e);
    }
    fn visit_expr_await(&mut self, e: &'ast syn::ExprAwait) {
        self.nodes.push(json!({"kind": "await", "range": rng(e.span())}));
        if let syn::Expr::MethodCall(mc) = &*e.base {
            self.nodes.push(json!({
                "kind": "await_call", "range": rng(e.span()), "base": rng(e.base.span()),
                "receiver": rng(mc.receiver.span()), "method": mc.method.to_string(),
            }));
        }
        if let syn::Expr::Call(c) = &*e.base {
            if let syn::Expr::Path(pa) = &*c.func {
                let name = pa.path.segments.iter().map(|s| s.ident.to_string()).collect::<Vec<_>>().join("::");
                self.nodes.push(json!({
                    "kind": "await_fn", "range": rng(e.span()), "base": rng(e.base.span()), "func": name,
                }));
            }
        }
        visit::visit_expr_await(self, e);
    }
    fn visit_expr_method_call(&mut self, e: &'ast syn::ExprMethodCall) {
        if e.method == "or_default" && e.args.is_empty() {
            if let syn::Expr::MethodCall(inner) = &*e.receiver {
                if inner.method == "entry" && inner.args.len() == 1 {
                    self.nodes.push(json!({
                        "kind": "entry_or_default", "range": rng(e.span()),
                        "map": rng(inner.receiver.span()), "key": rng(inner.args[0].span()),
                    }));
                }
            }
        }
        if e.args.len() == 1 {
            if let syn::Expr::Closure(c) = &e.args[0] {
                let mut has_ctrl = CtrlFinder { found: false };
                has_ctrl.visit_expr(&c.body);
                self.nodes.push(json!({
                    "kind": "closure_call", "method": e.method.to_string(), "range": rng(e.span()),
                    "receiver": rng(e.receiver.span()),
                    "closure": {
                        "range": rng(c.span()),
                        "params": c.inputs.iter().map(|p| rng(p.span())).collect::<Vec<_>>(),
                        "body": rng(c.body.span()),
                        "body_is_block": matches!(&*c.body, syn::Expr::Block(_)),
                        "is_move": c.capture.is_some(),
                        "has_ctrl": has_ctrl.found,
                    },
                }));
            }
        }
        if e.args.len() == 1 {
            if let syn::Expr::Path(pa) = &e.args[0] {
                self.nodes.push(json!({
                    "kind": "path_call", "method": e.method.to_string(), "range": rng(e.span()),
                    "receiver": rng(e.receiver.span()), "path": rng(pa.span()),
                    "segments": pa.path.segments.len(),
                }));
            }
        }
        visit::visit_expr_method_call(self, e);
    }
    fn visit_expr_if(&mut self, e: &'ast syn::ExprIf) {
        // `if let Entry::Occupied(mut X) = M.entry(K) { .. }` with M and K plain identifiers (rule R24)
        if let syn::Expr::Let(l) = &*e.cond {
            if let (syn::Pat::TupleStruct(ts), syn::Expr::MethodCall(mc)) = (&*l.pat, &*l.expr) {
                let segs: Vec<String> = ts.path.segments.iter().map(|s| s.ident.to_string()).collect();
                let is_occ = segs.len() >= 2 && segs[segs.len() - 1] == "Occupied" && segs[segs.len() - 2] == "Entry" && ts.elems.len() == 1;
                if is_occ && mc.method == "entry" && mc.args.len() == 1 {
                    let var = match &ts.elems[0] { syn::Pat::Ident(pi) if pi.by_ref.is_none() && pi.subpat.is_none() => Some(pi.ident.to_string()), _ => None };
                    let m = match &*mc.receiver { syn::Expr::Path(p) => p.path.get_ident().map(|i| i.to_string()), _ => None };
                    let k = match &mc.args[0] { syn::Expr::Path(p) => p.path.get_ident().map(|i| i.to_string()), _ => None };
                    if let (Some(var), Some(m), Some(k)) = (var, m, k) {
                        let mut u = EntryUses { var: var.clone(), calls: vec![], other: 0 };
                        u.visit_block(&e.then_branch);
                        self.nodes.push(json!({
                            "kind": "occupied_entry", "range": rng(e.span()), "cond": rng(e.cond.span()),
                            "then": rng(e.then_branch.span()), "var": var, "map": m, "key": k,
                            "calls": u.calls, "other_uses": u.other, "in_closure": self.closure_depth > 0,
                        }));
                    }
                }
            }
        }
        visit::visit_expr_if(self, e);
    }
    fn visit_expr_closure(&mut self, c: &'ast syn::ExprClosure) {
        self.nodes.push(json!({"kind": "closure", "range": rng(c.span())}));
        self.closure_depth += 1;
        visit::visit_expr_closure(self, c);
        self.closure_depth -= 1;
    }
    fn visit_stmt(&mut self, s: &'ast syn::Stmt) {
        if let syn::Stmt::Macro(m) = s {
            let p = m
                .mac
                .path
                .segments
                .iter()
                .map(|s| s.ident.to_string())
                .collect::<Vec<_>>()
                .join("::");
            self.nodes.push(json!({
                "kind": "macro", "path": p, "range": rng(m.mac.span()), "stmt_range": rng(s.span()),
                "is_stmt": true, "tokens": m.mac.tokens.to_string(),
                "tokens_range": rng(m.mac.delimiter.span().join()),
            }));
        }
        visit::visit_stmt(self, s);
    }
    fn visit_expr_macro(&mut self, m: &'ast syn::ExprMacro) {
        let p = m
            .mac
            .path
            .segments
            .iter()
            .map(|s| s.ident.to_string())
            .collect::<Vec<_>>()
            .join("::");
        self.nodes.push(json!({
            "kind": "macro", "path": p, "range": rng(m.span()), "stmt_range": Value::Null,
            "is_stmt": false, "tokens": m.mac.tokens.to_string(),
            "tokens_range": rng(m.mac.delimiter.span().join()),
        }));
        visit::visit_expr_macro(self, m);
    }
    fn visit_attribute(&mut self, a: &'ast syn::Attribute) {
        let p = a
            .path()
            .segments
            .iter()
            .map(|s| s.ident.to_string())
            .collect::<Vec<_>>()
            .join("::");
        self.nodes.push(json!({"kind": "attr", "range": rng(a.span()), "path": p}));
    }
    fn visit_expr_return(&mut self, e: &'ast syn::ExprReturn) {
        self.nodes.push(json!({"kind": "return", "range": rng(e.span()), "in_closure": self.closure_depth > 0}));
        visit::visit_expr_return(self, e);
    }
    fn visit_expr_try(&mut self, e: &'ast syn::ExprTry) {
        self.nodes.push(json!({"kind": "try", "range": rng(e.span()), "q": rng(e.question_token.span()), "in_closure": self.closure_depth > 0}));
        visit::visit_expr_try(self, e);
    }
    fn visit_expr_match(&mut self, e: &'ast syn::ExprMatch) {
        self.nodes.push(json!({"kind": "match", "range": rng(e.span()), "scrutinee": rng(e.expr.span()),
            "arms": e.arms.iter().map(|a| json!({
                "pat": rng(a.pat.span()),
                "guard": a.guard.as_ref().map(|(_, g)| rng(g.span())),
                "body": rng(a.body.span()),
                "body_is_block": matches!(&*a.body, syn::Expr::Block(_)),
                "wild": matches!(&a.pat, syn::Pat::Wild(_)),
            })).collect::<Vec<_>>(),
            "in_closure": self.closure_depth > 0}));
        visit::visit_expr_match(self, e);
    }
    fn visit_block(&mut self, b: &'ast syn::Block) {
        let last = b.stmts.last();
        let last_expr = match last {
            Some(syn::Stmt::Expr(e, _)) => Some(e),
            _ => None,
        };
        let diverges = match last_expr {
            Some(syn::Expr::Return(_)) | Some(syn::Expr::Break(_)) | Some(syn::Expr::Continue(_)) => true,
            Some(syn::Expr::Macro(m)) => m.mac.path.segments.last().map(|s| {
                let n = s.ident.to_string();
                n == "unreachable" || n == "panic" || n == "unimplemented" || n == "todo"
            }).unwrap_or(false),
            _ => false,
        } || match last {
            Some(syn::Stmt::Macro(m)) => m.mac.path.segments.last().map(|s| {
                let n = s.ident.to_string();
                n == "unreachable" || n == "panic" || n == "unimplemented" || n == "todo"
            }).unwrap_or(false),
            _ => false,
        };
        self.nodes.push(json!({"kind": "block", "range": rng(b.span()),
            "tail_expr": matches!(last, Some(syn::Stmt::Expr(_, None))),
            "last_stmt": last.map(|s| rng(s.span())),
            "diverges": diverges,
            "nstmts": b.stmts.len(),
            "in_closure": self.closure_depth > 0}));
        visit::visit_block(self, b);
    }
    fn visit_item(&mut self, _i: &'ast syn::Item) {
        // nested items are not part of the body
    }
}

/// uses of the entry variable of an `if let Entry::Occupied(mut X) = ..` inside its block
struct EntryUses {
    var: String,
    calls: Vec<Value>,
    other: usize,
}
impl<'ast> Visit<'ast> for EntryUses {
    fn visit_expr_method_call(&mut self, e: &'ast syn::ExprMethodCall) {
        if let syn::Expr::Path(p) = &*e.receiver {
            if p.path.is_ident(&self.var) && e.args.is_empty() {
                let m = e.method.to_string();
                if m == "get_mut" || m == "get" || m == "remove" {
                    self.calls.push(json!({"method": m, "range": rng(e.span())}));
                    return;
                }
            }
        }
        visit::visit_expr_method_call(self, e);
    }
    fn visit_path(&mut self, p: &'ast syn::Path) {
        if p.is_ident(&self.var) {
            self.other += 1;
        }
    }
    fn visit_macro(&mut self, m: &'ast syn::Macro) {
        if m.tokens.to_string().split(|c: char| !c.is_alphanumeric() && c != '_').any(|t| t == self.var) {
            self.other += 1;
        }
    }
}
struct CtrlFinder {
    found: bool,
}
impl<'ast> Visit<'ast> for CtrlFinder {
    fn visit_expr_return(&mut self, _: &'ast syn::ExprReturn) {
        self.found = true;
    }
    fn visit_expr_try(&mut self, _: &'ast syn::ExprTry) {
        self.found = true;
    }
    fn visit_expr_break(&mut self, _: &'ast syn::ExprBreak) {
        self.found = true;
    }
    fn visit_expr_continue(&mut self, _: &'ast syn::ExprContinue) {
        self.found = true;
    }
    fn visit_expr_closure(&mut self, _: &'ast syn::ExprClosure) {}
}

fn sig_json(sig: &syn::Signature) -> Value {
    let ret = match &sig.output {
        syn::ReturnType::Default => Value::Null,
        syn::ReturnType::Type(_, t) => rng(t.span()),
    };
    let inputs: Vec<Value> = sig
        .inputs
        .iter()
        .map(|a| match a {
            syn::FnArg::Receiver(r) => json!({"range": rng(r.span()), "receiver": true,
                "colon": r.colon_token.is_some(), "ty": rng(r.ty.span())}),
            syn::FnArg::Typed(t) => json!({"range": rng(t.span()), "receiver": false, "pat": rng(t.pat.span()), "ty": rng(t.ty.span())}),
        })
        .collect();
    json!({
        "range": rng(sig.span()),
        "name": sig.ident.to_string(),
        "ret": ret,
        "is_async": sig.asyncness.is_some(),
        "inputs": inputs,
        "paren_close": rng(sig.paren_token.span.close()),
        "where": sig.generics.where_clause.as_ref().map(|w| rng(w.span())),
    })
}

fn fn_json(
    name: String,
    whole: Span,
    attrs: &[syn::Attribute],
    vis: &syn::Visibility,
    sig: &syn::Signature,
    block: Option<&syn::Block>,
) -> Value {
    let mut bv = BodyVisitor { nodes: vec![], loop_ord: 0, loop_stack: vec![], closure_depth: 0 };
    if let Some(b) = block {
        bv.visit_block(b);
    }
    json!({
        "kind": "fn", "name": name, "range": rng(whole), "line": whole.start().line,
        "attrs": attrs_json(attrs), "vis": vis_json(vis), "sig": sig_json(sig),
        "block": block.map(|b| rng(b.span())),
        "nodes": bv.nodes,
    })
}

fn fields_json(fields: &syn::Fields) -> Value {
    Value::Array(
        fields
            .iter()
            .map(|f| {
                json!({"name": f.ident.as_ref().map(|i| i.to_string()), "range": rng(f.span()),
                   "vis": vis_json(&f.vis), "attrs": attrs_json(&f.attrs)})
            })
            .collect(),
    )
}

fn item_json(it: &syn::Item) -> Value {
    match it {
        syn::Item::Fn(f) => fn_json(f.sig.ident.to_string(), f.span(), &f.attrs, &f.vis, &f.sig, Some(&f.block)),
        syn::Item::Struct(s) => json!({
            "kind": "struct", "name": s.ident.to_string(), "range": rng(s.span()), "line": s.span().start().line,
            "attrs": attrs_json(&s.attrs), "vis": vis_json(&s.vis), "fields": fields_json(&s.fields),
        }),
        syn::Item::Enum(e) => json!({
            "kind": "enum", "name": e.ident.to_string(), "range": rng(e.span()), "line": e.span().start().line,
            "attrs": attrs_json(&e.attrs), "vis": vis_json(&e.vis),
            "variants": e.variants.iter().map(|v| json!({"name": v.ident.to_string(), "range": rng(v.span()),
                 "attrs": attrs_json(&v.attrs), "fields": fields_json(&v.fields)})).collect::<Vec<_>>(),
        }),
        syn::Item::Impl(i) => {
            let tr = i.trait_.as_ref().map(|(_, p, _)| {
                p.segments.last().map(|s| s.ident.to_string()).unwrap_or_default()
            });
            let items: Vec<Value> = i
                .items
                .iter()
                .map(|ii| match ii {
                    syn::ImplItem::Fn(f) => {
                        fn_json(f.sig.ident.to_string(), f.span(), &f.attrs, &f.vis, &f.sig, Some(&f.block))
                    }
                    syn::ImplItem::Const(c) => json!({"kind": "const", "name": c.ident.to_string(), "range": rng(c.span()),
                        "attrs": attrs_json(&c.attrs), "vis": vis_json(&c.vis)}),
                    syn::ImplItem::Type(t) => json!({"kind": "type", "name": t.ident.to_string(), "range": rng(t.span()),
                        "attrs": attrs_json(&t.attrs), "vis": vis_json(&t.vis)}),
                    other => json!({"kind": "other", "name": "", "range": rng(other.span())}),
                })
                .collect();
            json!({
                "kind": "impl", "name": type_name(&i.self_ty), "trait": tr, "range": rng(i.span()),
                "line": i.span().start().line, "attrs": attrs_json(&i.attrs),
                "header": join(i.impl_token.span(), i.brace_token.span.open()),
                "brace_open": rng(i.brace_token.span.open()), "brace_close": rng(i.brace_token.span.close()),
                "items": items,
            })
        }
        syn::Item::Mod(m) => {
            let items: Vec<Value> = m
                .content
                .as_ref()
                .map(|(_, its)| its.iter().map(item_json).collect())
                .unwrap_or_default();
            json!({"kind": "mod", "name": m.ident.to_string(), "range": rng(m.span()), "line": m.span().start().line,
                "attrs": attrs_json(&m.attrs), "vis": vis_json(&m.vis), "items": items})
        }
        syn::Item::Trait(t) => {
            let items: Vec<Value> = t
                .items
                .iter()
                .map(|ti| match ti {
                    syn::TraitItem::Fn(f) => fn_json(
                        f.sig.ident.to_string(),
                        f.span(),
                        &f.attrs,
                        &syn::Visibility::Inherited,
                        &f.sig,
                        f.default.as_ref(),
                    ),
                    other => json!({"kind": "other", "name": "", "range": rng(other.span())}),
                })
                .collect();
            json!({"kind": "trait", "name": t.ident.to_string(), "range": rng(t.span()), "line": t.span().start().line,
                "attrs": attrs_json(&t.attrs), "vis": vis_json(&t.vis), "items": items,
                "brace_open": rng(t.brace_token.span.open()), "brace_close": rng(t.brace_token.span.close())})
        }
        syn::Item::Const(c) => json!({"kind": "const", "name": c.ident.to_string(), "range": rng(c.span()),
            "line": c.span().start().line, "attrs": attrs_json(&c.attrs), "vis": vis_json(&c.vis)}),
        syn::Item::Static(c) => json!({"kind": "static", "name": c.ident.to_string(), "range": rng(c.span()),
            "line": c.span().start().line, "attrs": attrs_json(&c.attrs), "vis": vis_json(&c.vis)}),
        syn::Item::Type(c) => json!({"kind": "type", "name": c.ident.to_string(), "range": rng(c.span()),
            "line": c.span().start().line, "attrs": attrs_json(&c.attrs), "vis": vis_json(&c.vis)}),
        syn::Item::Use(u) => json!({"kind": "use", "name": "", "range": rng(u.span()), "line": u.span().start().line}),
        other => json!({"kind": "other", "name": "", "range": rng(other.span())}),
    }
}

fn main() {
    let args: Vec<String> = std::env::args().collect();
    if args.len() < 2 {
        eprintln!("usage: vx <file.rs>...");
        std::process::exit(2);
    }
    let mut out = vec![];
    for path in &args[1..] {
        let src = match std::fs::read_to_string(path) {
            Ok(s) => s,
            Err(e) => {
                eprintln!("vx: cannot read {path}: {e}");
                std::process::exit(2);
            }
        };
        let file = match syn::parse_file(&src) {
            Ok(f) => f,
            Err(e) => {
                eprintln!("vx: cannot parse {path}: {e}");
                std::process::exit(2);
            }
        };
        let items: Vec<Value> = file.items.iter().map(item_json).collect();
        out.push(json!({"file": path, "len": src.len(), "items": items}));
    }
    println!("{}", serde_json::to_string(&Value::Array(out)).unwrap());
}
