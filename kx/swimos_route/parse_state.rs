// Kani contract harnesses for ParseState (swimos_utilities/swimos_route/src/route_pattern/mod.rs) -- property C18:
// segments recorded while parsing a pattern are non-empty, lie inside the text read so far, parameter segments exclude the
// leading ':' ("a parameter never binds an empty segment" starts here), and a failed parse stays failed.
// Loop-free (Vec::push of at most one element), every char / offset / state symbolic => complete.
use super::*;

fn any_state(offset: usize) -> ParseState {
    let k: u8 = kani::any();
    let s: usize = kani::any();
    kani::assume(k < 7);
    match k {
        0 => ParseState::Start,
        1 => {
            kani::assume(s < offset);
            ParseState::SchemeOrLiteral(s)
        }
        2 => ParseState::SegmentStart,
        3 => ParseState::AfterScheme,
        4 => {
            kani::assume(s < offset);
            ParseState::Literal(s)
        }
        5 => {
            kani::assume(s < offset);
            ParseState::Parameter(s)
        }
        _ => ParseState::Failed(s),
    }
}
// state invariant: a segment in progress started strictly before the current offset
fn inv(st: &ParseState, offset: usize) -> bool {
    match st {
        ParseState::SchemeOrLiteral(s) | ParseState::Literal(s) | ParseState::Parameter(s) => *s < offset,
        _ => true,
    }
}

#[kani::proof]
#[kani::unwind(3)]
fn transition_contract() {
    let offset: usize = kani::any();
    kani::assume(offset < usize::MAX - 8);
    let c: char = kani::any();
    let mut st = any_state(offset);
    let was_failed = matches!(st, ParseState::Failed(_));
    let was_start = matches!(st, ParseState::Start);
    let mut scheme = None;
    let mut absolute = false;
    let mut segments: Vec<Segment> = Vec::new();
    st.transition(c, offset, &mut scheme, &mut absolute, &mut segments);
    kani::cover!(segments.len() == 1, "COV pushes_a_segment");
    kani::cover!(matches!(st, ParseState::Failed(_)) && !was_failed, "COV newly_failed");
    assert!(segments.len() <= 1, "OBL transition::at_most_one_segment_per_char");
    if segments.len() == 1 {
        let seg = segments[0];
        assert!(seg.start < seg.end, "OBL transition::recorded_segment_is_non_empty");
        assert!(seg.end == offset, "OBL transition::recorded_segment_ends_before_the_separator");
        assert!(c == '/', "OBL transition::segments_end_only_at_a_separator");
    }
    assert!(inv(&st, offset + c.len_utf8()), "OBL transition::preserves_state_invariant");
    assert!(!was_failed || matches!(st, ParseState::Failed(_)), "OBL transition::failed_is_absorbing");
    assert!(!matches!(scheme, Some(o) if o != offset), "OBL transition::scheme_offset_is_the_colon");
    assert!(!(was_start && c == '/') || absolute, "OBL transition::leading_slash_is_absolute");
}

#[kani::proof]
fn end_contract() {
    let offset: usize = kani::any();
    let st = any_state(offset);
    let kind_param = matches!(st, ParseState::Parameter(_));
    let start = match st {
        ParseState::SchemeOrLiteral(s) | ParseState::Literal(s) | ParseState::Parameter(s) => Some(s),
        _ => None,
    };
    let r = st.end(offset);
    kani::cover!(matches!(r, Ok(Some(_))), "COV final_segment");
    kani::cover!(r.is_err(), "COV rejected");
    if let Ok(Some(seg)) = r {
        assert!(seg.start < seg.end && seg.end == offset, "OBL end::final_segment_is_non_empty_and_ends_at_the_end");
        assert!(seg.parameter == kind_param, "OBL end::parameter_flag_matches_state");
        assert!(!kind_param || Some(seg.start) == start.map(|s| s + 1), "OBL end::parameter_name_excludes_colon");
    }
}

#[kani::proof]
fn check_contract() {
    let offset: usize = kani::any();
    let st = any_state(offset);
    let failed = matches!(st, ParseState::Failed(_));
    kani::cover!(failed, "COV failed");
    assert!(st.check().is_err() == failed, "OBL check::errors_exactly_when_failed");
}
