// Kani harnesses for swimos_utilities/swimos_byte_channel/src/channel/mod.rs (property C12).
// They complement the Verus unit `conduit` (which proves the data/capacity/closed/waker-slot contracts for all
// buffer contents and sizes) with the facts Verus cannot see: that emptying the waker slot actually calls
// Waker::wake, and that the ByteReader/ByteWriter wrappers (mutex + Drop) reach the Conduit transitions.
use super::*;
use std::sync::atomic::{AtomicUsize, Ordering as O};
use std::task::Wake;

struct CountWake(AtomicUsize);
impl Wake for CountWake {
    fn wake(self: Arc<Self>) {
        self.0.fetch_add(1, O::SeqCst);
    }
    fn wake_by_ref(self: &Arc<Self>) {
        self.0.fetch_add(1, O::SeqCst);
    }
}
// The contended paths of parking_lot's mutex are unreachable in a single-threaded harness, but the installed Kani
// crashes while compiling them (internal compiler error in an intrinsic); they are stubbed out. The uncontended
// fast path (one compare-exchange) is executed as real code.
fn lock_slow_stub(_m: &parking_lot::RawMutex, _timeout: Option<std::time::Instant>) -> bool {
    panic!("contended lock in a single-threaded harness")
}
fn unlock_slow_stub(_m: &parking_lot::RawMutex, _force_fair: bool) {
    panic!("contended unlock in a single-threaded harness")
}
fn counting() -> (Arc<CountWake>, Waker) {
    let cw = Arc::new(CountWake(AtomicUsize::new(0)));
    let w = Waker::from(cw.clone());
    (cw, w)
}
fn cap() -> NonZeroUsize {
    let n: usize = kani::any();
    kani::assume(n >= 1 && n <= 4);
    NonZeroUsize::new(n).unwrap()
}

// Conduit::wake: the stored waker (if any) is woken exactly once and the slot is emptied. Loop-free => complete.
#[kani::proof]
fn conduit_wake() {
    let mut c = Conduit::new(cap());
    let (cw, w) = counting();
    let has: bool = kani::any();
    c.closed = kani::any();
    if has {
        c.waker = Some(w);
    }
    kani::cover!(has, "COV wake_with_waiter");
    kani::cover!(!has, "COV wake_without_waiter");
    c.wake();
    assert!(c.waker.is_none(), "OBL wake::slot_emptied");
    assert!(cw.0.load(O::SeqCst) == if has { 1 } else { 0 }, "OBL wake::stored_waker_woken_exactly_once");
}

#[kani::proof]
fn conduit_close() {
    let mut c = Conduit::new(cap());
    let (cw, w) = counting();
    let has: bool = kani::any();
    if has {
        c.waker = Some(w);
    }
    kani::cover!(has, "COV close_with_waiter");
    c.close_channel();
    assert!(c.closed, "OBL close::closed");
    assert!(c.waker.is_none(), "OBL close::slot_emptied");
    assert!(cw.0.load(O::SeqCst) == if has { 1 } else { 0 }, "OBL close::waiter_woken");
}

// Dropping the writer: a blocked reader is woken, then sees end-of-stream; a later write side does not exist.
#[kani::proof]
#[kani::stub(parking_lot::raw_mutex::RawMutex::lock_slow, lock_slow_stub)]
#[kani::stub(parking_lot::raw_mutex::RawMutex::unlock_slow, unlock_slow_stub)]
fn writer_drop_wakes_reader_then_eof() {
    let (tx, mut rx) = byte_channel(cap());
    let (cw, w) = counting();
    let mut cx = Context::from_waker(&w);
    let mut store = [0u8; 2];
    let mut rb = ReadBuf::new(&mut store);
    let p = Pin::new(&mut rx).poll_read(&mut cx, &mut rb);
    assert!(p.is_pending(), "OBL reader::empty_open_channel_is_pending");
    let before = cw.0.load(O::SeqCst);
    drop(tx);
    assert!(cw.0.load(O::SeqCst) == before + 1, "OBL writer_drop::wakes_blocked_reader");
    let p2 = Pin::new(&mut rx).poll_read(&mut cx, &mut rb);
    assert!(matches!(p2, Poll::Ready(Ok(()))) && rb.filled().is_empty(), "OBL writer_drop::reader_sees_eof");
    kani::cover!(true, "COV writer_drop_reached");
}

// Dropping the reader: a blocked writer is woken and every later write fails.
#[kani::proof]
#[kani::stub(parking_lot::raw_mutex::RawMutex::lock_slow, lock_slow_stub)]
#[kani::stub(parking_lot::raw_mutex::RawMutex::unlock_slow, unlock_slow_stub)]
fn reader_drop_wakes_writer_then_writes_fail() {
    let (mut tx, rx) = byte_channel(NonZeroUsize::new(1).unwrap());
    let (cw, w) = counting();
    let mut cx = Context::from_waker(&w);
    let b: u8 = kani::any();
    let p0 = Pin::new(&mut tx).poll_write(&mut cx, &[b]);
    assert!(matches!(p0, Poll::Ready(Ok(1))), "OBL writer::accepts_into_empty_channel");
    let p1 = Pin::new(&mut tx).poll_write(&mut cx, &[b]);
    assert!(p1.is_pending(), "OBL writer::full_channel_is_pending");
    let before = cw.0.load(O::SeqCst);
    drop(rx);
    assert!(cw.0.load(O::SeqCst) == before + 1, "OBL reader_drop::wakes_blocked_writer");
    let p2 = Pin::new(&mut tx).poll_write(&mut cx, &[b]);
    assert!(matches!(p2, Poll::Ready(Err(_))), "OBL reader_drop::writes_fail");
    assert!(tx.is_closed(), "OBL reader_drop::writer_observes_closed");
    kani::cover!(true, "COV reader_drop_reached");
}

// The wrappers reach the same Conduit: a byte written through ByteWriter is the byte read through ByteReader,
// a write wakes a blocked reader, a read wakes a blocked writer (capacity 1, single byte; the general data-path
// statement is the Verus unit's).
#[kani::proof]
#[kani::stub(parking_lot::raw_mutex::RawMutex::lock_slow, lock_slow_stub)]
#[kani::stub(parking_lot::raw_mutex::RawMutex::unlock_slow, unlock_slow_stub)]
fn wrappers_delegate_and_wake() {
    let (mut tx, mut rx) = byte_channel(NonZeroUsize::new(1).unwrap());
    let (rcw, rw) = counting();
    let (wcw, ww) = counting();
    let mut rcx = Context::from_waker(&rw);
    let mut wcx = Context::from_waker(&ww);
    let mut store = [0u8; 1];
    let mut rb = ReadBuf::new(&mut store);
    assert!(Pin::new(&mut rx).poll_read(&mut rcx, &mut rb).is_pending(), "OBL wrappers::reader_blocks_on_empty");
    let b: u8 = kani::any();
    let r0 = rcw.0.load(O::SeqCst);
    assert!(matches!(Pin::new(&mut tx).poll_write(&mut wcx, &[b]), Poll::Ready(Ok(1))), "OBL wrappers::write_accepted");
    assert!(rcw.0.load(O::SeqCst) == r0 + 1, "OBL wrappers::write_wakes_blocked_reader");
    assert!(Pin::new(&mut tx).poll_write(&mut wcx, &[b]).is_pending(), "OBL wrappers::writer_blocks_on_full");
    let w0 = wcw.0.load(O::SeqCst);
    assert!(matches!(Pin::new(&mut rx).poll_read(&mut rcx, &mut rb), Poll::Ready(Ok(()))), "OBL wrappers::read_ready");
    assert!(rb.filled().len() == 1 && rb.filled()[0] == b, "OBL wrappers::reads_the_written_byte");
    assert!(wcw.0.load(O::SeqCst) == w0 + 1, "OBL wrappers::read_wakes_blocked_writer");
    assert!(matches!(Pin::new(&mut tx).poll_flush(&mut wcx), Poll::Ready(Ok(()))), "OBL wrappers::flush_ready");
    assert!(matches!(Pin::new(&mut tx).poll_shutdown(&mut wcx), Poll::Ready(Ok(()))), "OBL wrappers::shutdown_ready");
    assert!(tx.is_closed(), "OBL wrappers::shutdown_closes");
    kani::cover!(true, "COV wrappers_reached");
}
