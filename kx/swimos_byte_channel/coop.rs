// Kani harnesses for swimos_utilities/swimos_byte_channel/src/coop/mod.rs (property C12: a cooperative yield
// must never lose the wake-up). Loop-free, every budget value symbolic => complete.
use super::*;
use std::sync::atomic::{AtomicUsize, Ordering as O};
use std::sync::Arc;
use std::task::{Wake, Waker};

struct CountWake(AtomicUsize);
impl Wake for CountWake {
    fn wake(self: Arc<Self>) {
        self.0.fetch_add(1, O::SeqCst);
    }
    fn wake_by_ref(self: &Arc<Self>) {
        self.0.fetch_add(1, O::SeqCst);
    }
}

#[kani::proof]
fn consume_budget_contract() {
    let cw = Arc::new(CountWake(AtomicUsize::new(0)));
    let w = Waker::from(cw.clone());
    let mut cx = Context::from_waker(&w);
    let has: bool = kani::any();
    let b: usize = kani::any();
    TASK_BUDGET.with(|budget| budget.set(if has { Some(b) } else { None }));
    let r = consume_budget(&mut cx);
    let after = TASK_BUDGET.with(|budget| budget.get());
    kani::cover!(r.is_pending(), "COV budget_exhausted");
    kani::cover!(r.is_ready() && has, "COV budget_consumed");
    kani::cover!(!has, "COV budget_unset");
    // a yield is always accompanied by a self-wake, so the task is polled again
    assert!(!r.is_pending() || cw.0.load(O::SeqCst) == 1, "OBL consume_budget::yield_self_wakes");
    assert!(!r.is_ready() || cw.0.load(O::SeqCst) == 0, "OBL consume_budget::no_spurious_wake");
    assert!(r.is_pending() == (has && b <= 1), "OBL consume_budget::yields_exactly_when_exhausted");
    assert!(!(has && b > 1) || after == Some(b - 1), "OBL consume_budget::decrements");
    assert!(!r.is_pending() || after.is_none(), "OBL consume_budget::resets_after_yield");
    assert!(has || after == Some(DEFAULT_START_BUDGET.get()), "OBL consume_budget::starts_default_budget");
}

#[kani::proof]
fn track_progress_contract() {
    let has: bool = kani::any();
    let b: usize = kani::any();
    TASK_BUDGET.with(|budget| budget.set(if has { Some(b) } else { None }));
    let pending: bool = kani::any();
    let v: u8 = kani::any();
    let p: Poll<u8> = if pending { Poll::Pending } else { Poll::Ready(v) };
    let r = track_progress(p);
    let after = TASK_BUDGET.with(|budget| budget.get());
    kani::cover!(pending && has, "COV refund");
    assert!(r == p, "OBL track_progress::result_unchanged");
    assert!(!(pending && has) || after == Some(b.saturating_add(1)), "OBL track_progress::refunds_unit_when_pending");
    assert!((pending && has) || after == (if has { Some(b) } else { None }), "OBL track_progress::otherwise_budget_unchanged");
}
