// Kani (BOUNDED) law harnesses for the arbitrary-precision kinds of Value (BigInt / BigUint), property C19.
// Values are built from fully symbolic i128 / u128 payloads, i.e. every big integer of at most 128 bits (two 64-bit limbs);
// larger magnitudes are not covered (bound stated in the evidence). num-bigint's loops are closed by an unwinding bound.
use super::*;
use num_bigint::{BigInt, BigUint};
use std::cmp::Ordering;
use std::hash::{Hash, Hasher};

#[derive(Clone, Copy, PartialEq, Eq)]
struct Rec {
    buf: [u8; 64],
    len: usize,
}
impl Hasher for Rec {
    fn finish(&self) -> u64 {
        0
    }
    fn write(&mut self, bytes: &[u8]) {
        let mut i = 0;
        while i < bytes.len() {
            if self.len < 64 {
                self.buf[self.len] = bytes[i];
                self.len += 1;
            }
            i += 1;
        }
    }
}
fn h(v: &Value) -> Rec {
    let mut r = Rec { buf: [0; 64], len: 0 };
    v.hash(&mut r);
    r
}
fn laws(a: &Value, b: &Value) {
    let ab = a == b;
    assert!(ab == (b == a), "OBL eq_sym");
    assert!(!ab || h(a) == h(b), "OBL eq_implies_same_hash");
    assert!(a.cmp(b) == b.cmp(a).reverse(), "OBL cmp_antisym");
    assert!((a.cmp(b) == Ordering::Equal) == ab, "OBL cmp_equal_iff_eq");
}

#[kani::proof]
#[kani::unwind(20)]
fn pair_bigint_biguint() {
    let x: i128 = kani::any();
    let y: u128 = kani::any();
    let a = Value::BigInt(BigInt::from(x));
    let b = Value::BigUint(BigUint::from(y));
    kani::cover!(a == b, "COV equal");
    kani::cover!(a != b, "COV unequal");
    laws(&a, &b);
}
#[kani::proof]
#[kani::unwind(20)]
fn pair_bigint_i64() {
    let x: i128 = kani::any();
    let y: i64 = kani::any();
    let a = Value::BigInt(BigInt::from(x));
    let b = Value::Int64Value(y);
    kani::cover!(a == b, "COV equal");
    laws(&a, &b);
}
#[kani::proof]
#[kani::unwind(20)]
fn pair_biguint_u64() {
    let x: u128 = kani::any();
    let y: u64 = kani::any();
    let a = Value::BigUint(BigUint::from(x));
    let b = Value::UInt64Value(y);
    kani::cover!(a == b, "COV equal");
    laws(&a, &b);
}
#[kani::proof]
#[kani::unwind(20)]
fn pair_bigint_bigint() {
    let x: i128 = kani::any();
    let y: i128 = kani::any();
    let a = Value::BigInt(BigInt::from(x));
    let b = Value::BigInt(BigInt::from(y));
    kani::cover!(a == b, "COV equal");
    laws(&a, &b);
}
