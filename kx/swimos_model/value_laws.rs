// Kani contract harnesses for api/swimos_model/src/value.rs (property C19): equality is an equivalence, equal values hash
// equally, the ordering is total (antisymmetric, transitive) and Equal exactly when ==.
// Primitive kinds {Extant, Int32, Int64, UInt32, UInt64, Boolean, Float64} with FULLY symbolic payloads; every harness is
// loop-free (floats are bit-precise in CBMC) => each is a complete proof of its cell, not a bounded check.
// One harness per kind combination ("cell"): refl_<k>, pair_<k1>_<k2> (unordered pair, both argument orders checked by the
// symmetric formulation of the laws), so a finding is pinned to its cell and a new incoherent cell is reported separately.
// Transitivity is not a triple harness (those exhaust CBMC: > 15 min and > 3 GB per cell) but a consequence of the two
// reference-key obligations of every non-float pair cell (see law_pair).
use super::*;
use std::cmp::Ordering;
use std::hash::{Hash, Hasher};

#[derive(Clone, Copy, PartialEq, Eq)]
struct Rec {
    buf: [u8; 40],
    len: usize,
}
impl Hasher for Rec {
    fn finish(&self) -> u64 {
        0
    }
    fn write(&mut self, bytes: &[u8]) {
        let mut i = 0;
        while i < bytes.len() {
            if self.len < 40 {
                self.buf[self.len] = bytes[i];
                self.len += 1;
            }
            i += 1;
        }
    }
}
fn h(v: &Value) -> Rec {
    let mut r = Rec { buf: [0; 40], len: 0 };
    v.hash(&mut r);
    r
}
fn mk(kind: u8) -> Value {
    match kind {
        0 => Value::Extant,
        1 => Value::Int32Value(kani::any()),
        2 => Value::Int64Value(kani::any()),
        3 => Value::UInt32Value(kani::any()),
        4 => Value::UInt64Value(kani::any()),
        5 => Value::BooleanValue(kani::any()),
        _ => Value::Float64Value(kani::any()),
    }
}
fn rev(o: Ordering) -> Ordering {
    o.reverse()
}
fn law_refl(a: &Value) {
    assert!(a == a, "OBL eq_refl");
    assert!(a.cmp(a) == Ordering::Equal, "OBL cmp_refl");
}
fn law_pair(a: &Value, b: &Value) {
    let ab = a == b;
    let ba = b == a;
    assert!(ab == ba, "OBL eq_sym");
    assert!(!ab || h(a) == h(b), "OBL eq_implies_same_hash");
    assert!(a.cmp(b) == rev(b.cmp(a)), "OBL cmp_antisym");
    assert!((a.cmp(b) == Ordering::Equal) == ab, "OBL cmp_equal_iff_eq");
    // TRANSITIVITY (of == and of the order) for the non-float kinds, for all values: both relations are those induced by the
    // reference key below, and equality / lexicographic order on (u8, i128) are transitive. (Symbolic triple cells do not
    // terminate under CBMC; for pairs involving Float64 the order is NOT transitive -- open finding, see value_pool.)
    if let (Some(ka), Some(kb)) = (key(a), key(b)) {
        assert!(a.cmp(b) == ka.cmp(&kb), "OBL cmp_is_the_order_of_the_reference_key");
        assert!(ab == (ka == kb), "OBL eq_is_equality_of_the_reference_key");
    }
}
// reference key: numbers (any width, by numeric value) < booleans (false < true) < Extant
fn key(v: &Value) -> Option<(u8, i128)> {
    match v {
        Value::Extant => Some((2, 0)),
        Value::BooleanValue(p) => Some((1, *p as i128)),
        Value::Int32Value(n) => Some((0, *n as i128)),
        Value::Int64Value(n) => Some((0, *n as i128)),
        Value::UInt32Value(n) => Some((0, *n as i128)),
        Value::UInt64Value(n) => Some((0, *n as i128)),
        _ => None,
    }
}
#[kani::proof]
fn refl_extant() {
    let a = mk(0);
    kani::cover!(true, "COV reached");
    law_refl(&a);
}
#[kani::proof]
fn refl_i32() {
    let a = mk(1);
    kani::cover!(true, "COV reached");
    law_refl(&a);
}
#[kani::proof]
fn refl_i64() {
    let a = mk(2);
    kani::cover!(true, "COV reached");
    law_refl(&a);
}
#[kani::proof]
fn refl_u32() {
    let a = mk(3);
    kani::cover!(true, "COV reached");
    law_refl(&a);
}
#[kani::proof]
fn refl_u64() {
    let a = mk(4);
    kani::cover!(true, "COV reached");
    law_refl(&a);
}
#[kani::proof]
fn refl_bool() {
    let a = mk(5);
    kani::cover!(true, "COV reached");
    law_refl(&a);
}
#[kani::proof]
fn refl_f64() {
    let a = mk(6);
    kani::cover!(true, "COV reached");
    law_refl(&a);
}
#[kani::proof]
fn pair_extant_extant() {
    let a = mk(0);
    let b = mk(0);
    kani::cover!(true, "COV reached");
    law_pair(&a, &b);
}
#[kani::proof]
fn pair_extant_i32() {
    let a = mk(0);
    let b = mk(1);
    kani::cover!(true, "COV reached");
    law_pair(&a, &b);
}
#[kani::proof]
fn pair_extant_i64() {
    let a = mk(0);
    let b = mk(2);
    kani::cover!(true, "COV reached");
    law_pair(&a, &b);
}
#[kani::proof]
fn pair_extant_u32() {
    let a = mk(0);
    let b = mk(3);
    kani::cover!(true, "COV reached");
    law_pair(&a, &b);
}
#[kani::proof]
fn pair_extant_u64() {
    let a = mk(0);
    let b = mk(4);
    kani::cover!(true, "COV reached");
    law_pair(&a, &b);
}
#[kani::proof]
fn pair_extant_bool() {
    let a = mk(0);
    let b = mk(5);
    kani::cover!(true, "COV reached");
    law_pair(&a, &b);
}
#[kani::proof]
fn pair_extant_f64() {
    let a = mk(0);
    let b = mk(6);
    kani::cover!(true, "COV reached");
    law_pair(&a, &b);
}
#[kani::proof]
fn pair_i32_i32() {
    let a = mk(1);
    let b = mk(1);
    kani::cover!(true, "COV reached");
    law_pair(&a, &b);
}
#[kani::proof]
fn pair_i32_i64() {
    let a = mk(1);
    let b = mk(2);
    kani::cover!(true, "COV reached");
    law_pair(&a, &b);
}
#[kani::proof]
fn pair_i32_u32() {
    let a = mk(1);
    let b = mk(3);
    kani::cover!(true, "COV reached");
    law_pair(&a, &b);
}
#[kani::proof]
fn pair_i32_u64() {
    let a = mk(1);
    let b = mk(4);
    kani::cover!(true, "COV reached");
    law_pair(&a, &b);
}
#[kani::proof]
fn pair_i32_bool() {
    let a = mk(1);
    let b = mk(5);
    kani::cover!(true, "COV reached");
    law_pair(&a, &b);
}
#[kani::proof]
fn pair_i32_f64() {
    let a = mk(1);
    let b = mk(6);
    kani::cover!(true, "COV reached");
    law_pair(&a, &b);
}
#[kani::proof]
fn pair_i64_i64() {
    let a = mk(2);
    let b = mk(2);
    kani::cover!(true, "COV reached");
    law_pair(&a, &b);
}
#[kani::proof]
fn pair_i64_u32() {
    let a = mk(2);
    let b = mk(3);
    kani::cover!(true, "COV reached");
    law_pair(&a, &b);
}
#[kani::proof]
fn pair_i64_u64() {
    let a = mk(2);
    let b = mk(4);
    kani::cover!(true, "COV reached");
    law_pair(&a, &b);
}
#[kani::proof]
fn pair_i64_bool() {
    let a = mk(2);
    let b = mk(5);
    kani::cover!(true, "COV reached");
    law_pair(&a, &b);
}
#[kani::proof]
fn pair_i64_f64() {
    let a = mk(2);
    let b = mk(6);
    kani::cover!(true, "COV reached");
    law_pair(&a, &b);
}
#[kani::proof]
fn pair_u32_u32() {
    let a = mk(3);
    let b = mk(3);
    kani::cover!(true, "COV reached");
    law_pair(&a, &b);
}
#[kani::proof]
fn pair_u32_u64() {
    let a = mk(3);
    let b = mk(4);
    kani::cover!(true, "COV reached");
    law_pair(&a, &b);
}
#[kani::proof]
fn pair_u32_bool() {
    let a = mk(3);
    let b = mk(5);
    kani::cover!(true, "COV reached");
    law_pair(&a, &b);
}
#[kani::proof]
fn pair_u32_f64() {
    let a = mk(3);
    let b = mk(6);
    kani::cover!(true, "COV reached");
    law_pair(&a, &b);
}
#[kani::proof]
fn pair_u64_u64() {
    let a = mk(4);
    let b = mk(4);
    kani::cover!(true, "COV reached");
    law_pair(&a, &b);
}
#[kani::proof]
fn pair_u64_bool() {
    let a = mk(4);
    let b = mk(5);
    kani::cover!(true, "COV reached");
    law_pair(&a, &b);
}
#[kani::proof]
fn pair_u64_f64() {
    let a = mk(4);
    let b = mk(6);
    kani::cover!(true, "COV reached");
    law_pair(&a, &b);
}
#[kani::proof]
fn pair_bool_bool() {
    let a = mk(5);
    let b = mk(5);
    kani::cover!(true, "COV reached");
    law_pair(&a, &b);
}
#[kani::proof]
fn pair_bool_f64() {
    let a = mk(5);
    let b = mk(6);
    kani::cover!(true, "COV reached");
    law_pair(&a, &b);
}
#[kani::proof]
fn pair_f64_f64() {
    let a = mk(6);
    let b = mk(6);
    kani::cover!(true, "COV reached");
    law_pair(&a, &b);
}
