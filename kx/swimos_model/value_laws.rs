// Kani contract harnesses for api/swimos_model/src/value.rs (property C19): equality is an equivalence, equal values hash
// equally, the ordering is total (antisymmetric, transitive) and Equal exactly when ==.
// Primitive kinds {Extant, Int32, Int64, UInt32, UInt64, Boolean, Float64} with FULLY symbolic payloads; every harness is
// loop-free (floats are bit-precise in CBMC) => each is a complete proof of its cell, not a bounded check.
// One harness per kind combination ("cell"): refl_<k>, pair_<k1>_<k2> (unordered pair, both argument orders checked by the
// symmetric formulation of the laws), triple_<k1>_<k2>_<k3> (kind multiset, the arrangement of the three values is symbolic),
// so a finding is pinned to its cell and a new incoherent cell is reported separately.
use super::*;
use std::cmp::Ordering;
use std::hash::{Hash, Hasher};

#[derive(Clone, Copy, PartialEq, Eq)]
struct Rec {
    buf: [u8; 40],
    len: usize,
}
impl Hasher for Rec {
    fn finish(&self) -> u64 {
        0
    }
    fn write(&mut self, bytes: &[u8]) {
        let mut i = 0;
        while i < bytes.len() {
            if self.len < 40 {
                self.buf[self.len] = bytes[i];
                self.len += 1;
            }
            i += 1;
        }
    }
}
fn h(v: &Value) -> Rec {
    let mut r = Rec { buf: [0; 40], len: 0 };
    v.hash(&mut r);
    r
}
fn mk(kind: u8) -> Value {
    match kind {
        0 => Value::Extant,
        1 => Value::Int32Value(kani::any()),
        2 => Value::Int64Value(kani::any()),
        3 => Value::UInt32Value(kani::any()),
        4 => Value::UInt64Value(kani::any()),
        5 => Value::BooleanValue(kani::any()),
        _ => Value::Float64Value(kani::any()),
    }
}
fn rev(o: Ordering) -> Ordering {
    o.reverse()
}
fn law_refl(a: &Value) {
    assert!(a == a, "OBL eq_refl");
    assert!(a.cmp(a) == Ordering::Equal, "OBL cmp_refl");
}
fn law_pair(a: &Value, b: &Value) {
    let ab = a == b;
    let ba = b == a;
    assert!(ab == ba, "OBL eq_sym");
    assert!(!ab || h(a) == h(b), "OBL eq_implies_same_hash");
    assert!(a.cmp(b) == rev(b.cmp(a)), "OBL cmp_antisym");
    assert!((a.cmp(b) == Ordering::Equal) == ab, "OBL cmp_equal_iff_eq");
}
fn law_triple(a: &Value, b: &Value, c: &Value) {
    assert!(!(a == b && b == c) || a == c, "OBL eq_trans");
    let ab = a.cmp(b);
    let bc = b.cmp(c);
    let ac = a.cmp(c);
    assert!(!(ab != Ordering::Greater && bc != Ordering::Greater) || ac != Ordering::Greater, "OBL cmp_trans_le");
    assert!(!(ab == Ordering::Less && bc != Ordering::Greater) || ac == Ordering::Less, "OBL cmp_trans_lt");
}
// a symbolic arrangement of three values (so one harness covers every order of its kind multiset)
fn arrange(x: Value, y: Value, z: Value) -> (Value, Value, Value) {
    let p: u8 = kani::any();
    kani::assume(p < 6);
    match p {
        0 => (x, y, z),
        1 => (x, z, y),
        2 => (y, x, z),
        3 => (y, z, x),
        4 => (z, x, y),
        _ => (z, y, x),
    }
}

#[kani::proof]
fn refl_extant() {
    let a = mk(0);
    kani::cover!(true, "COV reached");
    law_refl(&a);
}
#[kani::proof]
fn refl_i32() {
    let a = mk(1);
    kani::cover!(true, "COV reached");
    law_refl(&a);
}
#[kani::proof]
fn refl_i64() {
    let a = mk(2);
    kani::cover!(true, "COV reached");
    law_refl(&a);
}
#[kani::proof]
fn refl_u32() {
    let a = mk(3);
    kani::cover!(true, "COV reached");
    law_refl(&a);
}
#[kani::proof]
fn refl_u64() {
    let a = mk(4);
    kani::cover!(true, "COV reached");
    law_refl(&a);
}
#[kani::proof]
fn refl_bool() {
    let a = mk(5);
    kani::cover!(true, "COV reached");
    law_refl(&a);
}
#[kani::proof]
fn refl_f64() {
    let a = mk(6);
    kani::cover!(true, "COV reached");
    law_refl(&a);
}
#[kani::proof]
fn pair_extant_extant() {
    let a = mk(0);
    let b = mk(0);
    kani::cover!(true, "COV reached");
    law_pair(&a, &b);
}
#[kani::proof]
fn pair_extant_i32() {
    let a = mk(0);
    let b = mk(1);
    kani::cover!(true, "COV reached");
    law_pair(&a, &b);
}
#[kani::proof]
fn pair_extant_i64() {
    let a = mk(0);
    let b = mk(2);
    kani::cover!(true, "COV reached");
    law_pair(&a, &b);
}
#[kani::proof]
fn pair_extant_u32() {
    let a = mk(0);
    let b = mk(3);
    kani::cover!(true, "COV reached");
    law_pair(&a, &b);
}
#[kani::proof]
fn pair_extant_u64() {
    let a = mk(0);
    let b = mk(4);
    kani::cover!(true, "COV reached");
    law_pair(&a, &b);
}
#[kani::proof]
fn pair_extant_bool() {
    let a = mk(0);
    let b = mk(5);
    kani::cover!(true, "COV reached");
    law_pair(&a, &b);
}
#[kani::proof]
fn pair_extant_f64() {
    let a = mk(0);
    let b = mk(6);
    kani::cover!(true, "COV reached");
    law_pair(&a, &b);
}
#[kani::proof]
fn pair_i32_i32() {
    let a = mk(1);
    let b = mk(1);
    kani::cover!(true, "COV reached");
    law_pair(&a, &b);
}
#[kani::proof]
fn pair_i32_i64() {
    let a = mk(1);
    let b = mk(2);
    kani::cover!(true, "COV reached");
    law_pair(&a, &b);
}
#[kani::proof]
fn pair_i32_u32() {
    let a = mk(1);
    let b = mk(3);
    kani::cover!(true, "COV reached");
    law_pair(&a, &b);
}
#[kani::proof]
fn pair_i32_u64() {
    let a = mk(1);
    let b = mk(4);
    kani::cover!(true, "COV reached");
    law_pair(&a, &b);
}
#[kani::proof]
fn pair_i32_bool() {
    let a = mk(1);
    let b = mk(5);
    kani::cover!(true, "COV reached");
    law_pair(&a, &b);
}
#[kani::proof]
fn pair_i32_f64() {
    let a = mk(1);
    let b = mk(6);
    kani::cover!(true, "COV reached");
    law_pair(&a, &b);
}
#[kani::proof]
fn pair_i64_i64() {
    let a = mk(2);
    let b = mk(2);
    kani::cover!(true, "COV reached");
    law_pair(&a, &b);
}
#[kani::proof]
fn pair_i64_u32() {
    let a = mk(2);
    let b = mk(3);
    kani::cover!(true, "COV reached");
    law_pair(&a, &b);
}
#[kani::proof]
fn pair_i64_u64() {
    let a = mk(2);
    let b = mk(4);
    kani::cover!(true, "COV reached");
    law_pair(&a, &b);
}
#[kani::proof]
fn pair_i64_bool() {
    let a = mk(2);
    let b = mk(5);
    kani::cover!(true, "COV reached");
    law_pair(&a, &b);
}
#[kani::proof]
fn pair_i64_f64() {
    let a = mk(2);
    let b = mk(6);
    kani::cover!(true, "COV reached");
    law_pair(&a, &b);
}
#[kani::proof]
fn pair_u32_u32() {
    let a = mk(3);
    let b = mk(3);
    kani::cover!(true, "COV reached");
    law_pair(&a, &b);
}
#[kani::proof]
fn pair_u32_u64() {
    let a = mk(3);
    let b = mk(4);
    kani::cover!(true, "COV reached");
    law_pair(&a, &b);
}
#[kani::proof]
fn pair_u32_bool() {
    let a = mk(3);
    let b = mk(5);
    kani::cover!(true, "COV reached");
    law_pair(&a, &b);
}
#[kani::proof]
fn pair_u32_f64() {
    let a = mk(3);
    let b = mk(6);
    kani::cover!(true, "COV reached");
    law_pair(&a, &b);
}
#[kani::proof]
fn pair_u64_u64() {
    let a = mk(4);
    let b = mk(4);
    kani::cover!(true, "COV reached");
    law_pair(&a, &b);
}
#[kani::proof]
fn pair_u64_bool() {
    let a = mk(4);
    let b = mk(5);
    kani::cover!(true, "COV reached");
    law_pair(&a, &b);
}
#[kani::proof]
fn pair_u64_f64() {
    let a = mk(4);
    let b = mk(6);
    kani::cover!(true, "COV reached");
    law_pair(&a, &b);
}
#[kani::proof]
fn pair_bool_bool() {
    let a = mk(5);
    let b = mk(5);
    kani::cover!(true, "COV reached");
    law_pair(&a, &b);
}
#[kani::proof]
fn pair_bool_f64() {
    let a = mk(5);
    let b = mk(6);
    kani::cover!(true, "COV reached");
    law_pair(&a, &b);
}
#[kani::proof]
fn pair_f64_f64() {
    let a = mk(6);
    let b = mk(6);
    kani::cover!(true, "COV reached");
    law_pair(&a, &b);
}
#[kani::proof]
fn triple_extant_extant_extant() {
    let (a, b, c) = arrange(mk(0), mk(0), mk(0));
    kani::cover!(true, "COV reached");
    law_triple(&a, &b, &c);
}
#[kani::proof]
fn triple_extant_extant_i32() {
    let (a, b, c) = arrange(mk(0), mk(0), mk(1));
    kani::cover!(true, "COV reached");
    law_triple(&a, &b, &c);
}
#[kani::proof]
fn triple_extant_extant_i64() {
    let (a, b, c) = arrange(mk(0), mk(0), mk(2));
    kani::cover!(true, "COV reached");
    law_triple(&a, &b, &c);
}
#[kani::proof]
fn triple_extant_extant_u32() {
    let (a, b, c) = arrange(mk(0), mk(0), mk(3));
    kani::cover!(true, "COV reached");
    law_triple(&a, &b, &c);
}
#[kani::proof]
fn triple_extant_extant_u64() {
    let (a, b, c) = arrange(mk(0), mk(0), mk(4));
    kani::cover!(true, "COV reached");
    law_triple(&a, &b, &c);
}
#[kani::proof]
fn triple_extant_extant_bool() {
    let (a, b, c) = arrange(mk(0), mk(0), mk(5));
    kani::cover!(true, "COV reached");
    law_triple(&a, &b, &c);
}
#[kani::proof]
fn triple_extant_extant_f64() {
    let (a, b, c) = arrange(mk(0), mk(0), mk(6));
    kani::cover!(true, "COV reached");
    law_triple(&a, &b, &c);
}
#[kani::proof]
fn triple_extant_i32_i32() {
    let (a, b, c) = arrange(mk(0), mk(1), mk(1));
    kani::cover!(true, "COV reached");
    law_triple(&a, &b, &c);
}
#[kani::proof]
fn triple_extant_i32_i64() {
    let (a, b, c) = arrange(mk(0), mk(1), mk(2));
    kani::cover!(true, "COV reached");
    law_triple(&a, &b, &c);
}
#[kani::proof]
fn triple_extant_i32_u32() {
    let (a, b, c) = arrange(mk(0), mk(1), mk(3));
    kani::cover!(true, "COV reached");
    law_triple(&a, &b, &c);
}
#[kani::proof]
fn triple_extant_i32_u64() {
    let (a, b, c) = arrange(mk(0), mk(1), mk(4));
    kani::cover!(true, "COV reached");
    law_triple(&a, &b, &c);
}
#[kani::proof]
fn triple_extant_i32_bool() {
    let (a, b, c) = arrange(mk(0), mk(1), mk(5));
    kani::cover!(true, "COV reached");
    law_triple(&a, &b, &c);
}
#[kani::proof]
fn triple_extant_i32_f64() {
    let (a, b, c) = arrange(mk(0), mk(1), mk(6));
    kani::cover!(true, "COV reached");
    law_triple(&a, &b, &c);
}
#[kani::proof]
fn triple_extant_i64_i64() {
    let (a, b, c) = arrange(mk(0), mk(2), mk(2));
    kani::cover!(true, "COV reached");
    law_triple(&a, &b, &c);
}
#[kani::proof]
fn triple_extant_i64_u32() {
    let (a, b, c) = arrange(mk(0), mk(2), mk(3));
    kani::cover!(true, "COV reached");
    law_triple(&a, &b, &c);
}
#[kani::proof]
fn triple_extant_i64_u64() {
    let (a, b, c) = arrange(mk(0), mk(2), mk(4));
    kani::cover!(true, "COV reached");
    law_triple(&a, &b, &c);
}
#[kani::proof]
fn triple_extant_i64_bool() {
    let (a, b, c) = arrange(mk(0), mk(2), mk(5));
    kani::cover!(true, "COV reached");
    law_triple(&a, &b, &c);
}
#[kani::proof]
fn triple_extant_i64_f64() {
    let (a, b, c) = arrange(mk(0), mk(2), mk(6));
    kani::cover!(true, "COV reached");
    law_triple(&a, &b, &c);
}
#[kani::proof]
fn triple_extant_u32_u32() {
    let (a, b, c) = arrange(mk(0), mk(3), mk(3));
    kani::cover!(true, "COV reached");
    law_triple(&a, &b, &c);
}
#[kani::proof]
fn triple_extant_u32_u64() {
    let (a, b, c) = arrange(mk(0), mk(3), mk(4));
    kani::cover!(true, "COV reached");
    law_triple(&a, &b, &c);
}
#[kani::proof]
fn triple_extant_u32_bool() {
    let (a, b, c) = arrange(mk(0), mk(3), mk(5));
    kani::cover!(true, "COV reached");
    law_triple(&a, &b, &c);
}
#[kani::proof]
fn triple_extant_u32_f64() {
    let (a, b, c) = arrange(mk(0), mk(3), mk(6));
    kani::cover!(true, "COV reached");
    law_triple(&a, &b, &c);
}
#[kani::proof]
fn triple_extant_u64_u64() {
    let (a, b, c) = arrange(mk(0), mk(4), mk(4));
    kani::cover!(true, "COV reached");
    law_triple(&a, &b, &c);
}
#[kani::proof]
fn triple_extant_u64_bool() {
    let (a, b, c) = arrange(mk(0), mk(4), mk(5));
    kani::cover!(true, "COV reached");
    law_triple(&a, &b, &c);
}
#[kani::proof]
fn triple_extant_u64_f64() {
    let (a, b, c) = arrange(mk(0), mk(4), mk(6));
    kani::cover!(true, "COV reached");
    law_triple(&a, &b, &c);
}
#[kani::proof]
fn triple_extant_bool_bool() {
    let (a, b, c) = arrange(mk(0), mk(5), mk(5));
    kani::cover!(true, "COV reached");
    law_triple(&a, &b, &c);
}
#[kani::proof]
fn triple_extant_bool_f64() {
    let (a, b, c) = arrange(mk(0), mk(5), mk(6));
    kani::cover!(true, "COV reached");
    law_triple(&a, &b, &c);
}
#[kani::proof]
fn triple_extant_f64_f64() {
    let (a, b, c) = arrange(mk(0), mk(6), mk(6));
    kani::cover!(true, "COV reached");
    law_triple(&a, &b, &c);
}
#[kani::proof]
fn triple_i32_i32_i32() {
    let (a, b, c) = arrange(mk(1), mk(1), mk(1));
    kani::cover!(true, "COV reached");
    law_triple(&a, &b, &c);
}
#[kani::proof]
fn triple_i32_i32_i64() {
    let (a, b, c) = arrange(mk(1), mk(1), mk(2));
    kani::cover!(true, "COV reached");
    law_triple(&a, &b, &c);
}
#[kani::proof]
fn triple_i32_i32_u32() {
    let (a, b, c) = arrange(mk(1), mk(1), mk(3));
    kani::cover!(true, "COV reached");
    law_triple(&a, &b, &c);
}
#[kani::proof]
fn triple_i32_i32_u64() {
    let (a, b, c) = arrange(mk(1), mk(1), mk(4));
    kani::cover!(true, "COV reached");
    law_triple(&a, &b, &c);
}
#[kani::proof]
fn triple_i32_i32_bool() {
    let (a, b, c) = arrange(mk(1), mk(1), mk(5));
    kani::cover!(true, "COV reached");
    law_triple(&a, &b, &c);
}
#[kani::proof]
fn triple_i32_i32_f64() {
    let (a, b, c) = arrange(mk(1), mk(1), mk(6));
    kani::cover!(true, "COV reached");
    law_triple(&a, &b, &c);
}
#[kani::proof]
fn triple_i32_i64_i64() {
    let (a, b, c) = arrange(mk(1), mk(2), mk(2));
    kani::cover!(true, "COV reached");
    law_triple(&a, &b, &c);
}
#[kani::proof]
fn triple_i32_i64_u32() {
    let (a, b, c) = arrange(mk(1), mk(2), mk(3));
    kani::cover!(true, "COV reached");
    law_triple(&a, &b, &c);
}
#[kani::proof]
fn triple_i32_i64_u64() {
    let (a, b, c) = arrange(mk(1), mk(2), mk(4));
    kani::cover!(true, "COV reached");
    law_triple(&a, &b, &c);
}
#[kani::proof]
fn triple_i32_i64_bool() {
    let (a, b, c) = arrange(mk(1), mk(2), mk(5));
    kani::cover!(true, "COV reached");
    law_triple(&a, &b, &c);
}
#[kani::proof]
fn triple_i32_i64_f64() {
    let (a, b, c) = arrange(mk(1), mk(2), mk(6));
    kani::cover!(true, "COV reached");
    law_triple(&a, &b, &c);
}
#[kani::proof]
fn triple_i32_u32_u32() {
    let (a, b, c) = arrange(mk(1), mk(3), mk(3));
    kani::cover!(true, "COV reached");
    law_triple(&a, &b, &c);
}
#[kani::proof]
fn triple_i32_u32_u64() {
    let (a, b, c) = arrange(mk(1), mk(3), mk(4));
    kani::cover!(true, "COV reached");
    law_triple(&a, &b, &c);
}
#[kani::proof]
fn triple_i32_u32_bool() {
    let (a, b, c) = arrange(mk(1), mk(3), mk(5));
    kani::cover!(true, "COV reached");
    law_triple(&a, &b, &c);
}
#[kani::proof]
fn triple_i32_u32_f64() {
    let (a, b, c) = arrange(mk(1), mk(3), mk(6));
    kani::cover!(true, "COV reached");
    law_triple(&a, &b, &c);
}
#[kani::proof]
fn triple_i32_u64_u64() {
    let (a, b, c) = arrange(mk(1), mk(4), mk(4));
    kani::cover!(true, "COV reached");
    law_triple(&a, &b, &c);
}
#[kani::proof]
fn triple_i32_u64_bool() {
    let (a, b, c) = arrange(mk(1), mk(4), mk(5));
    kani::cover!(true, "COV reached");
    law_triple(&a, &b, &c);
}
#[kani::proof]
fn triple_i32_u64_f64() {
    let (a, b, c) = arrange(mk(1), mk(4), mk(6));
    kani::cover!(true, "COV reached");
    law_triple(&a, &b, &c);
}
#[kani::proof]
fn triple_i32_bool_bool() {
    let (a, b, c) = arrange(mk(1), mk(5), mk(5));
    kani::cover!(true, "COV reached");
    law_triple(&a, &b, &c);
}
#[kani::proof]
fn triple_i32_bool_f64() {
    let (a, b, c) = arrange(mk(1), mk(5), mk(6));
    kani::cover!(true, "COV reached");
    law_triple(&a, &b, &c);
}
#[kani::proof]
fn triple_i32_f64_f64() {
    let (a, b, c) = arrange(mk(1), mk(6), mk(6));
    kani::cover!(true, "COV reached");
    law_triple(&a, &b, &c);
}
#[kani::proof]
fn triple_i64_i64_i64() {
    let (a, b, c) = arrange(mk(2), mk(2), mk(2));
    kani::cover!(true, "COV reached");
    law_triple(&a, &b, &c);
}
#[kani::proof]
fn triple_i64_i64_u32() {
    let (a, b, c) = arrange(mk(2), mk(2), mk(3));
    kani::cover!(true, "COV reached");
    law_triple(&a, &b, &c);
}
#[kani::proof]
fn triple_i64_i64_u64() {
    let (a, b, c) = arrange(mk(2), mk(2), mk(4));
    kani::cover!(true, "COV reached");
    law_triple(&a, &b, &c);
}
#[kani::proof]
fn triple_i64_i64_bool() {
    let (a, b, c) = arrange(mk(2), mk(2), mk(5));
    kani::cover!(true, "COV reached");
    law_triple(&a, &b, &c);
}
#[kani::proof]
fn triple_i64_i64_f64() {
    let (a, b, c) = arrange(mk(2), mk(2), mk(6));
    kani::cover!(true, "COV reached");
    law_triple(&a, &b, &c);
}
#[kani::proof]
fn triple_i64_u32_u32() {
    let (a, b, c) = arrange(mk(2), mk(3), mk(3));
    kani::cover!(true, "COV reached");
    law_triple(&a, &b, &c);
}
#[kani::proof]
fn triple_i64_u32_u64() {
    let (a, b, c) = arrange(mk(2), mk(3), mk(4));
    kani::cover!(true, "COV reached");
    law_triple(&a, &b, &c);
}
#[kani::proof]
fn triple_i64_u32_bool() {
    let (a, b, c) = arrange(mk(2), mk(3), mk(5));
    kani::cover!(true, "COV reached");
    law_triple(&a, &b, &c);
}
#[kani::proof]
fn triple_i64_u32_f64() {
    let (a, b, c) = arrange(mk(2), mk(3), mk(6));
    kani::cover!(true, "COV reached");
    law_triple(&a, &b, &c);
}
#[kani::proof]
fn triple_i64_u64_u64() {
    let (a, b, c) = arrange(mk(2), mk(4), mk(4));
    kani::cover!(true, "COV reached");
    law_triple(&a, &b, &c);
}
#[kani::proof]
fn triple_i64_u64_bool() {
    let (a, b, c) = arrange(mk(2), mk(4), mk(5));
    kani::cover!(true, "COV reached");
    law_triple(&a, &b, &c);
}
#[kani::proof]
fn triple_i64_u64_f64() {
    let (a, b, c) = arrange(mk(2), mk(4), mk(6));
    kani::cover!(true, "COV reached");
    law_triple(&a, &b, &c);
}
#[kani::proof]
fn triple_i64_bool_bool() {
    let (a, b, c) = arrange(mk(2), mk(5), mk(5));
    kani::cover!(true, "COV reached");
    law_triple(&a, &b, &c);
}
#[kani::proof]
fn triple_i64_bool_f64() {
    let (a, b, c) = arrange(mk(2), mk(5), mk(6));
    kani::cover!(true, "COV reached");
    law_triple(&a, &b, &c);
}
#[kani::proof]
fn triple_i64_f64_f64() {
    let (a, b, c) = arrange(mk(2), mk(6), mk(6));
    kani::cover!(true, "COV reached");
    law_triple(&a, &b, &c);
}
#[kani::proof]
fn triple_u32_u32_u32() {
    let (a, b, c) = arrange(mk(3), mk(3), mk(3));
    kani::cover!(true, "COV reached");
    law_triple(&a, &b, &c);
}
#[kani::proof]
fn triple_u32_u32_u64() {
    let (a, b, c) = arrange(mk(3), mk(3), mk(4));
    kani::cover!(true, "COV reached");
    law_triple(&a, &b, &c);
}
#[kani::proof]
fn triple_u32_u32_bool() {
    let (a, b, c) = arrange(mk(3), mk(3), mk(5));
    kani::cover!(true, "COV reached");
    law_triple(&a, &b, &c);
}
#[kani::proof]
fn triple_u32_u32_f64() {
    let (a, b, c) = arrange(mk(3), mk(3), mk(6));
    kani::cover!(true, "COV reached");
    law_triple(&a, &b, &c);
}
#[kani::proof]
fn triple_u32_u64_u64() {
    let (a, b, c) = arrange(mk(3), mk(4), mk(4));
    kani::cover!(true, "COV reached");
    law_triple(&a, &b, &c);
}
#[kani::proof]
fn triple_u32_u64_bool() {
    let (a, b, c) = arrange(mk(3), mk(4), mk(5));
    kani::cover!(true, "COV reached");
    law_triple(&a, &b, &c);
}
#[kani::proof]
fn triple_u32_u64_f64() {
    let (a, b, c) = arrange(mk(3), mk(4), mk(6));
    kani::cover!(true, "COV reached");
    law_triple(&a, &b, &c);
}
#[kani::proof]
fn triple_u32_bool_bool() {
    let (a, b, c) = arrange(mk(3), mk(5), mk(5));
    kani::cover!(true, "COV reached");
    law_triple(&a, &b, &c);
}
#[kani::proof]
fn triple_u32_bool_f64() {
    let (a, b, c) = arrange(mk(3), mk(5), mk(6));
    kani::cover!(true, "COV reached");
    law_triple(&a, &b, &c);
}
#[kani::proof]
fn triple_u32_f64_f64() {
    let (a, b, c) = arrange(mk(3), mk(6), mk(6));
    kani::cover!(true, "COV reached");
    law_triple(&a, &b, &c);
}
#[kani::proof]
fn triple_u64_u64_u64() {
    let (a, b, c) = arrange(mk(4), mk(4), mk(4));
    kani::cover!(true, "COV reached");
    law_triple(&a, &b, &c);
}
#[kani::proof]
fn triple_u64_u64_bool() {
    let (a, b, c) = arrange(mk(4), mk(4), mk(5));
    kani::cover!(true, "COV reached");
    law_triple(&a, &b, &c);
}
#[kani::proof]
fn triple_u64_u64_f64() {
    let (a, b, c) = arrange(mk(4), mk(4), mk(6));
    kani::cover!(true, "COV reached");
    law_triple(&a, &b, &c);
}
#[kani::proof]
fn triple_u64_bool_bool() {
    let (a, b, c) = arrange(mk(4), mk(5), mk(5));
    kani::cover!(true, "COV reached");
    law_triple(&a, &b, &c);
}
#[kani::proof]
fn triple_u64_bool_f64() {
    let (a, b, c) = arrange(mk(4), mk(5), mk(6));
    kani::cover!(true, "COV reached");
    law_triple(&a, &b, &c);
}
#[kani::proof]
fn triple_u64_f64_f64() {
    let (a, b, c) = arrange(mk(4), mk(6), mk(6));
    kani::cover!(true, "COV reached");
    law_triple(&a, &b, &c);
}
#[kani::proof]
fn triple_bool_bool_bool() {
    let (a, b, c) = arrange(mk(5), mk(5), mk(5));
    kani::cover!(true, "COV reached");
    law_triple(&a, &b, &c);
}
#[kani::proof]
fn triple_bool_bool_f64() {
    let (a, b, c) = arrange(mk(5), mk(5), mk(6));
    kani::cover!(true, "COV reached");
    law_triple(&a, &b, &c);
}
#[kani::proof]
fn triple_bool_f64_f64() {
    let (a, b, c) = arrange(mk(5), mk(6), mk(6));
    kani::cover!(true, "COV reached");
    law_triple(&a, &b, &c);
}
#[kani::proof]
fn triple_f64_f64_f64() {
    let (a, b, c) = arrange(mk(6), mk(6), mk(6));
    kani::cover!(true, "COV reached");
    law_triple(&a, &b, &c);
}
