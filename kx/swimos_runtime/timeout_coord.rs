// Kani contract harnesses for runtime/swimos_runtime/src/timeout_coord/mod.rs (property C17).
// Attached as a child module of `timeout_coord` in a scratch copy, so the real private fields are visible.
// Each harness fixes the number of parties N (const generic in the real constructor) and is otherwise
// fully symbolic: party index, all flag words within `all`, and the `voted` cell. The only loops are the constructor's
// `array::from_fn` (N iterations) and the CAS loop of `rescind` (sequentially one iteration); both are closed by
// unwinding assertions with bound N+1 => complete, not bounded.
use super::*;
use std::future::Future;
use std::pin::Pin;
use std::sync::atomic::{AtomicUsize, Ordering as O};
use std::sync::Arc;
use std::task::{Context, Poll, Wake, Waker};

struct CountWake(AtomicUsize);
impl Wake for CountWake {
    fn wake(self: Arc<Self>) {
        self.0.fetch_add(1, O::SeqCst);
    }
    fn wake_by_ref(self: &Arc<Self>) {
        self.0.fetch_add(1, O::SeqCst);
    }
}

// State invariant of the coordinator as far as one voter can see it (established by the constructor and
// preserved by every operation -- both are obligations below):
//   flags ⊆ all,  and  a voter's `voted` cell mirrors its own bit (it has an outstanding vote iff its bit is set).
fn inv(flags: u8, all: u8, flag: u8, voted: bool) -> bool {
    (flags & !all == 0) && (voted == (flags & flag != 0))
}

macro_rules! harnesses {
    ($n:literal, $u:literal, $ctor:ident, $vote:ident, $rescind:ident, $rescind_any:ident, $drop:ident, $poll:ident) => {
        #[kani::proof]
        fn $ctor() {
            let (voters, rx) = multi_party_coordinator::<$n>();
            let all = <[Voter; $n] as NumParties>::all();
            let i: usize = kani::any();
            kani::assume(i < $n);
            let j: usize = kani::any();
            kani::assume(j < $n && j != i);
            kani::cover!(true, "COV ctor_reached");
            assert!(all as u16 == (1u16 << $n) - 1, "OBL ctor::all_is_n_low_bits");
            assert!(voters[i].flag == 1u8 << i, "OBL ctor::flag_is_own_bit");
            assert!(voters[i].flag != voters[j].flag, "OBL ctor::flags_distinct");
            assert!(voters[i].inverse == all ^ voters[i].flag, "OBL ctor::inverse_is_all_but_own");
            assert!(rx.inner.unanimity == all, "OBL ctor::unanimity_is_all");
            assert!(rx.inner.flags.load(O::SeqCst) == 0, "OBL ctor::starts_with_no_votes");
            assert!(!voters[i].voted.get(), "OBL ctor::starts_unvoted");
            std::mem::forget(voters);
        }

        #[kani::proof]
        fn $vote() {
            let (voters, rx) = multi_party_coordinator::<$n>();
            let all = <[Voter; $n] as NumParties>::all();
            let i: usize = kani::any();
            kani::assume(i < $n);
            let v = &voters[i];
            let f0: u8 = kani::any();
            let voted0: bool = kani::any();
            kani::assume(inv(f0, all, v.flag, voted0));
            v.inner.flags.store(f0, O::SeqCst);
            v.voted.set(voted0);
            let cw = Arc::new(CountWake(AtomicUsize::new(0)));
            let waker = Waker::from(cw.clone());
            v.inner.waker.register(&waker);
            let r = v.vote();
            let f1 = v.inner.flags.load(O::SeqCst);
            kani::cover!(r == VoteResult::Unanimous, "COV vote_unanimous");
            kani::cover!(r == VoteResult::UnanimityPending, "COV vote_pending");
            assert!(f1 == f0 | v.flag, "OBL vote::sets_exactly_own_bit");
            assert!(v.voted.get(), "OBL vote::records_voted");
            assert!(inv(f1, all, v.flag, v.voted.get()), "OBL vote::preserves_invariant");
            assert!(r != VoteResult::Unanimous || f1 == all, "OBL vote::unanimous_means_all_voted");
            assert!(f0 != v.inverse || r == VoteResult::Unanimous, "OBL vote::completing_vote_is_told_unanimous");
            assert!(f0 != v.inverse || cw.0.load(O::SeqCst) >= 1, "OBL vote::completing_vote_wakes_receiver");
            assert!(f0 != all || f1 == all, "OBL vote::unanimity_never_undone");
            // the receiver now sees exactly "all voted"
            let mut rx = rx;
            let w2 = Waker::from(Arc::new(CountWake(AtomicUsize::new(0))));
            let mut cx = Context::from_waker(&w2);
            let p = Pin::new(&mut rx).poll(&mut cx);
            assert!(p.is_ready() == (f1 == all), "OBL vote::receiver_ready_iff_all_voted");
            std::mem::forget(voters);
        }

        // rescind as its callers use it: the caller holds an outstanding vote
        #[kani::proof]
        #[kani::unwind($u)]
        fn $rescind() {
            let (voters, _rx) = multi_party_coordinator::<$n>();
            let all = <[Voter; $n] as NumParties>::all();
            let i: usize = kani::any();
            kani::assume(i < $n);
            let v = &voters[i];
            let f0: u8 = kani::any();
            kani::assume(inv(f0, all, v.flag, true));
            v.inner.flags.store(f0, O::SeqCst);
            v.voted.set(true);
            let r = v.rescind();
            let f1 = v.inner.flags.load(O::SeqCst);
            kani::cover!(r == VoteResult::Unanimous, "COV rescind_unanimous");
            kani::cover!(r == VoteResult::UnanimityPending, "COV rescind_pending");
            assert!(r != VoteResult::UnanimityPending || (f0 != all && f1 == f0 & !v.flag),
                "OBL rescind::pending_means_not_started_and_own_bit_cleared");
            assert!(r != VoteResult::Unanimous || (f0 == all && f1 == all), "OBL rescind::unanimous_means_all_voted");
            assert!(f0 != all || r == VoteResult::Unanimous, "OBL rescind::after_unanimity_is_told_unanimous");
            assert!(inv(f1, all, v.flag, v.voted.get()), "OBL rescind::preserves_invariant");
            std::mem::forget(voters);
        }

        // rescind from ANY state satisfying the invariant ("any number of times in any order")
        #[kani::proof]
        #[kani::unwind($u)]
        fn $rescind_any() {
            let (voters, _rx) = multi_party_coordinator::<$n>();
            let all = <[Voter; $n] as NumParties>::all();
            let i: usize = kani::any();
            kani::assume(i < $n);
            let v = &voters[i];
            let f0: u8 = kani::any();
            let voted0: bool = kani::any();
            kani::assume(inv(f0, all, v.flag, voted0));
            v.inner.flags.store(f0, O::SeqCst);
            v.voted.set(voted0);
            let r = v.rescind();
            let f1 = v.inner.flags.load(O::SeqCst);
            kani::cover!(!voted0, "COV rescind_any_unvoted");
            kani::cover!(voted0 && f0 != all, "COV rescind_any_voted_not_unanimous");
            assert!(f0 != all || f1 == all, "OBL rescind_any::unanimity_never_undone");
            assert!(f1 == f0 || f1 == f0 & !v.flag, "OBL rescind_any::touches_only_own_bit");
            assert!(r != VoteResult::UnanimityPending || (f1 != all && f1 & v.flag == 0),
                "OBL rescind_any::pending_means_own_bit_clear_and_not_unanimous");
            assert!(r != VoteResult::Unanimous || f1 == all, "OBL rescind_any::told_unanimous_only_if_all_voted");
            assert!(inv(f1, all, v.flag, v.voted.get()), "OBL rescind_any::preserves_invariant");
            std::mem::forget(voters);
        }

        // a party that disappears counts as having voted
        #[kani::proof]
        fn $drop() {
            let (voters, rx) = multi_party_coordinator::<$n>();
            let all = <[Voter; $n] as NumParties>::all();
            let f0: u8 = kani::any();
            let voted0: bool = kani::any();
            let mut it = voters.into_iter();
            let v = it.next().unwrap();
            let flag = v.flag;
            kani::assume(inv(f0, all, flag, voted0));
            rx.inner.flags.store(f0, O::SeqCst);
            v.voted.set(voted0);
            kani::cover!(voted0, "COV drop_with_outstanding_vote");
            kani::cover!(!voted0, "COV drop_never_voted");
            let cw = Arc::new(CountWake(AtomicUsize::new(0)));
            let waker = Waker::from(cw.clone());
            rx.inner.waker.register(&waker);
            kani::cover!(!voted0 && f0 == all ^ flag, "COV drop_is_the_completing_vote");
            drop(v);
            let f1 = rx.inner.flags.load(O::SeqCst);
            assert!(f1 == f0 | flag, "OBL drop::counts_as_vote");
            // if the disappearing party was the last one missing, the waiting receiver must be woken
            assert!(!(f0 == all ^ flag) || cw.0.load(O::SeqCst) >= 1, "OBL drop::completing_drop_wakes_receiver");
            std::mem::forget(it);
        }

        #[kani::proof]
        fn $poll() {
            let (voters, mut rx) = multi_party_coordinator::<$n>();
            let all = <[Voter; $n] as NumParties>::all();
            let f0: u8 = kani::any();
            kani::assume(f0 & !all == 0);
            rx.inner.flags.store(f0, O::SeqCst);
            let cw = Arc::new(CountWake(AtomicUsize::new(0)));
            let waker = Waker::from(cw.clone());
            let mut cx = Context::from_waker(&waker);
            let p = Pin::new(&mut rx).poll(&mut cx);
            kani::cover!(p.is_ready(), "COV poll_ready");
            kani::cover!(p.is_pending(), "COV poll_pending");
            assert!(p.is_ready() == (f0 == all), "OBL poll::ready_iff_unanimous");
            assert!(rx.inner.flags.load(O::SeqCst) == f0, "OBL poll::does_not_change_votes");
            // a pending receiver has its waker registered: the completing vote wakes it
            if p.is_pending() {
                let i: usize = kani::any();
                kani::assume(i < $n);
                let v = &voters[i];
                if f0 == v.inverse {
                    let r = v.vote();
                    assert!(r == VoteResult::Unanimous, "OBL poll::then_completing_vote_unanimous");
                    assert!(cw.0.load(O::SeqCst) >= 1, "OBL poll::pending_receiver_is_woken_by_completing_vote");
                }
            }
            std::mem::forget(voters);
        }
    };
}

// HARNESS ctor_2
// HARNESS vote_2
// HARNESS rescind_2
// HARNESS rescind_any_2
// HARNESS drop_2
// HARNESS poll_2
harnesses!(2, 3, ctor_2, vote_2, rescind_2, rescind_any_2, drop_2, poll_2);
// HARNESS ctor_3
// HARNESS vote_3
// HARNESS rescind_3
// HARNESS rescind_any_3
// HARNESS drop_3
// HARNESS poll_3
harnesses!(3, 4, ctor_3, vote_3, rescind_3, rescind_any_3, drop_3, poll_3);
// HARNESS ctor_4
// HARNESS vote_4
// HARNESS rescind_4
// HARNESS rescind_any_4
// HARNESS drop_4
// HARNESS poll_4
harnesses!(4, 5, ctor_4, vote_4, rescind_4, rescind_any_4, drop_4, poll_4);
// HARNESS ctor_5
// HARNESS vote_5
// HARNESS rescind_5
// HARNESS rescind_any_5
// HARNESS drop_5
// HARNESS poll_5
harnesses!(5, 6, ctor_5, vote_5, rescind_5, rescind_any_5, drop_5, poll_5);
// HARNESS ctor_6
// HARNESS vote_6
// HARNESS rescind_6
// HARNESS rescind_any_6
// HARNESS drop_6
// HARNESS poll_6
harnesses!(6, 7, ctor_6, vote_6, rescind_6, rescind_any_6, drop_6, poll_6);
// HARNESS ctor_7
// HARNESS vote_7
// HARNESS rescind_7
// HARNESS rescind_any_7
// HARNESS drop_7
// HARNESS poll_7
harnesses!(7, 8, ctor_7, vote_7, rescind_7, rescind_any_7, drop_7, poll_7);
// HARNESS ctor_8
// HARNESS vote_8
// HARNESS rescind_8
// HARNESS rescind_any_8
// HARNESS drop_8
// HARNESS poll_8
harnesses!(8, 9, ctor_8, vote_8, rescind_8, rescind_any_8, drop_8, poll_8);
