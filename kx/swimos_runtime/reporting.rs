// Kani contract harnesses for runtime/swimos_runtime/src/agent/reporting/mod.rs (property C20, counters half).
// Sequential semantics (Kani has no threads): each primitive against its contract for ALL counter values.
// Loops: the CAS loop of snapshot_value runs once sequentially; closed by an unwinding assertion => complete.
use super::*;

#[kani::proof]
#[kani::unwind(3)]
fn saturating_add_contract() {
    let a: u64 = kani::any();
    let m: u64 = kani::any();
    let n = AtomicU64::new(a);
    saturating_add(&n, m);
    let r = n.load(Ordering::SeqCst);
    kani::cover!(a.checked_add(m).is_none(), "COV saturates");
    kani::cover!(a.checked_add(m).is_some(), "COV adds");
    assert!(r == a.saturating_add(m), "OBL saturating_add::adds_or_saturates");
    assert!(a.checked_add(m).is_none() || r == a + m, "OBL saturating_add::loses_nothing_below_the_ceiling");
}

#[kani::proof]
#[kani::unwind(3)]
fn snapshot_value_contract() {
    let a: u64 = kani::any();
    let n = AtomicU64::new(a);
    let r = snapshot_value(&n);
    kani::cover!(a > 0, "COV nonzero");
    assert!(r == a, "OBL snapshot_value::returns_everything_counted");
    assert!(n.load(Ordering::SeqCst) == 0, "OBL snapshot_value::resets_to_zero");
}

#[kani::proof]
#[kani::unwind(3)]
fn reporter_contract() {
    let e0: u64 = kani::any();
    let c0: u64 = kani::any();
    let l0: u64 = kani::any();
    let reporter = UplinkReporter::default();
    let reader = reporter.reader();
    reporter.counters.event_count.store(e0, Ordering::SeqCst);
    reporter.counters.command_count.store(c0, Ordering::SeqCst);
    reporter.counters.link_count.store(l0, Ordering::SeqCst);
    let de: u64 = kani::any();
    let dc: u64 = kani::any();
    let l1: u64 = kani::any();
    kani::assume(e0.checked_add(de).is_some() && c0.checked_add(dc).is_some());
    reporter.count_events(de);
    reporter.count_commands(dc);
    reporter.set_uplinks(l1);
    kani::cover!(de > 0 && dc > 0, "COV counted");
    let s = reader.snapshot();
    assert!(s.is_some(), "OBL reader::active_while_reporter_alive");
    let s = s.unwrap();
    assert!(s.event_count == e0 + de, "OBL snapshot::event_count_is_everything_counted_since_last_snapshot");
    assert!(s.command_count == c0 + dc, "OBL snapshot::command_count_is_everything_counted_since_last_snapshot");
    assert!(s.link_count == l1, "OBL snapshot::link_count_is_last_reported");
    // a second snapshot reports nothing twice, and keeps the link count
    let s2 = reader.snapshot().unwrap();
    assert!(s2.event_count == 0 && s2.command_count == 0, "OBL snapshot::counts_nothing_twice");
    assert!(s2.link_count == l1, "OBL snapshot::link_count_is_not_reset");
    drop(reporter);
    assert!(reader.snapshot().is_none() && !reader.is_active(), "OBL reader::inactive_after_reporter_dropped");
}

// ---- one interfering increment: the read-and-reset must be a single atomic step ----------------------------------
// Kani has no threads. To check that snapshot_value does not lose a count that lands between its read and its reset,
// `AtomicU64::load` is stubbed by a version that, once, lets "another thread" add a symbolic amount right after the value
// was read (the only observable interleaving point of a load/CAS loop). Contract: nothing counted is lost --
// value returned + value left in the counter == everything counted. BOUNDED: one interference, one retry.
static mut INJECTED: u64 = 0;
static mut INJECT_BUDGET: u8 = 1;
fn load_with_interference(a: &AtomicU64, _order: Ordering) -> u64 {
    let v = a.fetch_add(0, Ordering::SeqCst);
    unsafe {
        if INJECT_BUDGET > 0 && kani::any() {
            INJECT_BUDGET -= 1;
            let d: u64 = kani::any();
            kani::assume(d > 0 && d < 1000);
            a.fetch_add(d, Ordering::SeqCst);
            INJECTED = d;
        }
    }
    v
}

#[kani::proof]
#[kani::unwind(4)]
#[kani::stub(std::sync::atomic::Atomic::<u64>::load, load_with_interference)]
fn snapshot_value_under_interference() {
    let a: u64 = kani::any();
    kani::assume(a < 1_000_000);
    let n = AtomicU64::new(a);
    let r = snapshot_value(&n);
    let left = n.fetch_add(0, Ordering::SeqCst);
    let injected = unsafe { INJECTED };
    kani::cover!(injected > 0, "COV interference_happened");
    kani::cover!(injected == 0, "COV no_interference");
    assert!(r + left == a + injected, "OBL snapshot_value::loses_no_count_under_a_concurrent_increment");
}
