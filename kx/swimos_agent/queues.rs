// Kani (BOUNDED) checks of the two functions of lanes/queues/mod.rs that Verus cannot take (iterator `position`
// with a closure, `for` over `&mut Vec`): the contracts assumed (external_body) in the Verus unit write_queues.
// Bound: snapshots of length 0..=3 over u8 keys (contents fully symbolic), 0..=2 snapshots.
use super::*;
use std::collections::VecDeque;

fn remove_first_ref(v: &[u8], k: u8) -> Vec<u8> {
    let mut out = Vec::new();
    let mut done = false;
    for x in v {
        if !done && *x == k {
            done = true;
        } else {
            out.push(*x);
        }
    }
    out
}
fn dq<const N: usize>(a: [u8; N]) -> VecDeque<u8> {
    let mut d = VecDeque::new();
    for x in a {
        d.push_back(x);
    }
    d
}
fn same(d: &VecDeque<u8>, v: &[u8]) -> bool {
    d.len() == v.len() && d.iter().zip(v.iter()).all(|(a, b)| a == b)
}

macro_rules! remove_harness {
    ($name:ident, $n:literal) => {
        #[kani::proof]
        #[kani::unwind(6)]
        fn $name() {
            let a: [u8; $n] = kani::any();
            let k: u8 = kani::any();
            let id = Uuid::from_u128(7);
            let mut q = SyncQueue::new(id, dq(a));
            q.remove(&k);
            let expect = remove_first_ref(&a, k);
            kani::cover!(expect.len() < $n || $n == 0, "COV key_present_or_empty");
            assert!(q.id.as_u128() == 7, "OBL sync_queue_remove::keeps_id");
            assert!(same(&q.queue, &expect), "OBL sync_queue_remove::removes_first_occurrence_only");
        }
    };
}
remove_harness!(sync_queue_remove_0, 0);
remove_harness!(sync_queue_remove_1, 1);
remove_harness!(sync_queue_remove_2, 2);
remove_harness!(sync_queue_remove_3, 3);

macro_rules! update_harness {
    ($name:ident, $n:literal, $m:literal) => {
        #[kani::proof]
        #[kani::unwind(6)]
        fn $name() {
            let a: [u8; $n] = kani::any();
            let b: [u8; $m] = kani::any();
            let k: u8 = kani::any();
            let which: u8 = kani::any();
            kani::assume(which < 3);
            let action: Action<u8> = match which {
                0 => MapOperation::Update { key: k, value: () },
                1 => MapOperation::Remove { key: k },
                _ => MapOperation::Clear,
            };
            let mut queues = vec![SyncQueue::new(Uuid::from_u128(1), dq(a)), SyncQueue::new(Uuid::from_u128(2), dq(b))];
            update_sync_queues(&mut queues, &action);
            kani::cover!(which == 2, "COV clear");
            kani::cover!(which == 0, "COV update");
            assert!(queues.len() == 2, "OBL update_sync_queues::keeps_every_snapshot");
            assert!(queues[0].id.as_u128() == 1 && queues[1].id.as_u128() == 2, "OBL update_sync_queues::keeps_ids_and_order");
            if which == 2 {
                assert!(queues[0].queue.is_empty() && queues[1].queue.is_empty(), "OBL update_sync_queues::clear_supersedes_all");
            } else {
                assert!(same(&queues[0].queue, &remove_first_ref(&a, k)), "OBL update_sync_queues::supersedes_key_in_first_snapshot");
                assert!(same(&queues[1].queue, &remove_first_ref(&b, k)), "OBL update_sync_queues::supersedes_key_in_every_snapshot");
            }
        }
    };
}
update_harness!(update_sync_queues_2_1, 2, 1);
update_harness!(update_sync_queues_0_3, 0, 3);

// HARNESS sync_queue_remove_0
// HARNESS sync_queue_remove_1
// HARNESS sync_queue_remove_2
// HARNESS sync_queue_remove_3
// HARNESS update_sync_queues_2_1
// HARNESS update_sync_queues_0_3
