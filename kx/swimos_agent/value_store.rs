// Kani contract harnesses for ValueStore<T> (server/swimos_agent/src/stores/value/mod.rs) -- properties C01 / C06:
// "the dirty flag is consumed exactly when the value is written", "handlers see the true previous value, once".
// T = u64 (the code has no T-specific branch); every field value symbolic; loop-free => complete.
use super::*;
use std::cell::Cell as StdCell;

fn any_store() -> (ValueStore<u64>, u64, Option<u64>, bool) {
    let c: u64 = kani::any();
    let p: Option<u64> = kani::any();
    let d: bool = kani::any();
    let s = ValueStore::new(kani::any(), c);
    s.inner.borrow_mut().previous = p;
    s.dirty.set(d);
    (s, c, p, d)
}
fn state(s: &ValueStore<u64>) -> (u64, Option<u64>, bool) {
    let g = s.inner.borrow();
    (g.content, g.previous, s.dirty.get())
}

#[kani::proof]
fn new_contract() {
    let id: u64 = kani::any();
    let v: u64 = kani::any();
    let s = ValueStore::new(id, v);
    kani::cover!(true, "COV reached");
    assert!(state(&s) == (v, None, false), "OBL new::holds_initial_value_clean_no_previous");
    assert!(s.id == id, "OBL new::keeps_id");
}

#[kani::proof]
fn set_contract() {
    let (s, c, _p, _d) = any_store();
    let v: u64 = kani::any();
    s.set(v);
    kani::cover!(v != c, "COV changes_value");
    assert!(state(&s) == (v, Some(c), true), "OBL set::stores_value_records_true_previous_marks_dirty");
}

#[kani::proof]
fn replace_contract() {
    let (s, c, _p, _d) = any_store();
    let delta: u64 = kani::any();
    s.replace(|old| old.wrapping_add(delta));
    kani::cover!(delta != 0, "COV changes_value");
    assert!(state(&s) == (c.wrapping_add(delta), Some(c), true), "OBL replace::applies_function_records_true_previous_marks_dirty");
}

#[kani::proof]
fn init_contract() {
    let (s, _c, p, d) = any_store();
    let v: u64 = kani::any();
    s.init(v);
    kani::cover!(d, "COV dirty");
    assert!(state(&s) == (v, p, d), "OBL init::sets_content_without_marking_dirty");
}

#[kani::proof]
fn read_contract() {
    let (s, c, p, d) = any_store();
    let seen = s.read(|x| *x);
    kani::cover!(true, "COV reached");
    assert!(seen == c, "OBL read::sees_current_value");
    assert!(state(&s) == (c, p, d), "OBL read::changes_nothing");
    assert!(s.has_data_to_write() == d, "OBL has_data_to_write::is_the_dirty_flag");
}

#[kani::proof]
fn read_with_prev_contract() {
    let (s, c, p, d) = any_store();
    let seen = s.read_with_prev(|prev, cur| (prev, *cur));
    kani::cover!(p.is_some(), "COV has_previous");
    assert!(seen == (p, c), "OBL read_with_prev::hands_out_previous_and_current");
    assert!(state(&s) == (c, None, d), "OBL read_with_prev::previous_is_handed_out_once");
}

#[kani::proof]
fn consume_contract() {
    let (s, c, p, d) = any_store();
    let calls = StdCell::new(0u8);
    let seen = StdCell::new(0u64);
    let r = s.consume(|x| {
        calls.set(calls.get() + 1);
        seen.set(*x);
    });
    kani::cover!(d, "COV dirty");
    kani::cover!(!d, "COV clean");
    assert!(r == d, "OBL consume::reports_whether_it_was_dirty");
    assert!(calls.get() == if d { 1 } else { 0 }, "OBL consume::writes_exactly_once_iff_dirty");
    assert!(!d || seen.get() == c, "OBL consume::writes_the_current_value");
    assert!(state(&s) == (c, p, false), "OBL consume::clears_dirty_and_nothing_else");
}
