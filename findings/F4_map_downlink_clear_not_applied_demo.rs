// Demonstration for finding F4 (property C08): append to swimos_downlink/src/task/map.rs
// Fails before commit "fix: map downlink applies clear/take/drop to its state even when events are not dispatched", passes after.
#[cfg(test)]
mod verif_f4 {
    use super::*;
    use crate::model::lifecycle::BasicMapDownlinkLifecycle;

    #[tokio::test]
    async fn clear_received_before_synced_is_applied_to_the_state() {
        let config = DownlinkConfig {
            events_when_not_synced: false,
            terminate_on_unlinked: false,
            ..Default::default()
        };
        let mut lifecycle = BasicMapDownlinkLifecycle::<i32, i32>::default();
        let mut state = State::Unlinked;
        let notifications = vec![
            DownlinkNotification::Linked,
            DownlinkNotification::Event { body: MapMessage::Update { key: 1, value: 10 } },
            DownlinkNotification::Event { body: MapMessage::Clear },
            DownlinkNotification::Event { body: MapMessage::Update { key: 2, value: 20 } },
            DownlinkNotification::Synced,
        ];
        for n in notifications {
            state = match on_read(state, &mut lifecycle, n, config).await {
                Step::Cont(s) => s,
                Step::Terminate => panic!("Terminated."),
            };
        }
        match state {
            State::Synced(map) => assert_eq!(map.into_iter().collect::<Vec<_>>(), vec![(2, 20)]),
            _ => panic!("Not synced."),
        }
    }
}
