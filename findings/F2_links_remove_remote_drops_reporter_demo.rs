// Demonstration for finding F2 (property C20): add inside `mod tests` of runtime/swimos_runtime/src/agent/task/links.rs
// Fails before commit "fix: removing a remote keeps the lane's uplink reporter", passes after.
    #[test]
    fn verif_f2_lane_reporter_survives_remote_disconnect() {
        let reporter = UplinkReporter::default();
        let reader = reporter.reader();
        let mut links = Links::new(None);
        links.register_reporter(LID1, reporter);
        links.insert(LID1, RID1);
        assert_eq!(reader.snapshot().expect("reporter dropped").link_count, 1);
        // the only remote linked to the lane disconnects ...
        links.remove_remote(RID1);
        assert_eq!(reader.snapshot().expect("reporter dropped").link_count, 0);
        // ... and another remote links later: the lane must still report its links
        links.insert(LID1, RID2);
        assert_eq!(reader.snapshot().expect("reporter dropped").link_count, 1);
    }
