// Demonstrations for findings F7a/F7b (property C18): add to swimos_utilities/swimos_route/src/route_pattern/tests.rs
// F7a fails before "fix: route ambiguity check compares literal segments percent-decoded"; F7b fails before
// "fix: route pattern matching keys parameters by their name in the pattern"; both pass after.
#[test]
fn verif_f7a_patterns_matching_the_same_route_are_reported_ambiguous() {
    let p = RoutePattern::parse_str("/%41").unwrap();
    let q = RoutePattern::parse_str("/A").unwrap();
    // both match the route "/A" ...
    assert!(p.unapply_str("/A").is_ok());
    assert!(q.unapply_str("/A").is_ok());
    // ... so a server must not accept both
    assert!(RoutePattern::are_ambiguous(&p, &q));
}

#[test]
fn verif_f7b_unapply_returns_the_values_given_to_apply() {
    let p = RoutePattern::parse_str("/:%41").unwrap();
    let name = p.parameters().next().unwrap().to_string();
    let params: HashMap<String, String> = [(name, "v".to_string())].into_iter().collect();
    let route = p.apply(&params).unwrap();
    assert_eq!(p.unapply_str(&route).unwrap(), params);
}
