// Demonstration for the C10 defect F6 (suspected while reading, see DESIGN.md section 4; confirmed when the typed map message codec
// was added to the bounded harness bx/swimos_agent_protocol/codecs.rs, obligation
// `codecs::MapMessage_typed_i32_::fragmentation_independent_exact_round_trip`).
//
// `MessageDecoder` (api/swimos_agent_protocol/src/map/mod.rs), the decoder of map MESSAGES, peeks at the first 9 bytes of its input
// as a header (length + tag) on EVERY call -- also when the typed operation decoder it wraps has already consumed the header of an
// update / remove and is waiting for the rest of the key or value. What then sits at the front of the buffer is the middle of a
// frame: with fewer than 9 such bytes the wrapper waits although the frame is complete (the message is only delivered when the NEXT
// frame arrives, and `decode_eof` -- used for the body of a map downlink event -- fails with "bytes remaining on stream"); with 9 or
// more, byte 8 may read as TAKE / DROP and the stream fails with "Invalid record size".
//
// Append to api/swimos_agent_protocol/src/map/tests.rs on the parent of the repair: the tests fail there and pass on the repaired tree.
#[test]
fn typed_map_message_split_after_its_header_is_decoded() {
    use bytes::BytesMut;
    use tokio_util::codec::{Decoder, Encoder};
    let mut frame = BytesMut::new();
    super::MapMessageEncoder::default()
        .encode(crate::MapMessage::Update { key: 1i32, value: 2i32 }, &mut frame)
        .unwrap();
    let bytes = frame.to_vec();
    for cut in 1..bytes.len() {
        let mut decoder = super::MapMessageDecoder::<i32, i32>::default();
        let mut buf = BytesMut::new();
        buf.extend_from_slice(&bytes[..cut]);
        assert!(matches!(decoder.decode(&mut buf), Ok(None)), "cut {cut}: first part");
        buf.extend_from_slice(&bytes[cut..]);
        let second = decoder.decode(&mut buf).expect("decoding failed");
        assert_eq!(
            second,
            Some(crate::MapMessage::Update { key: 1, value: 2 }),
            "cut {cut}: the whole frame has arrived but the message is not produced ({} bytes left in the buffer)",
            buf.len()
        );
    }
}

#[test]
fn typed_map_message_split_one_byte_before_its_end_does_not_break_the_next_frame() {
    use bytes::BytesMut;
    use tokio_util::codec::{Decoder, Encoder};
    let mut enc = super::MapMessageEncoder::default();
    let mut stream = BytesMut::new();
    enc.encode(crate::MapMessage::Update { key: 1i32, value: 2i32 }, &mut stream).unwrap();
    let first_len = stream.len();
    // a remove whose key is two characters long: its length field ends in the byte 3, the tag of `take`
    enc.encode(crate::MapMessage::<i32, i32>::Remove { key: 12 }, &mut stream).unwrap();
    let bytes = stream.to_vec();
    let mut decoder = super::MapMessageDecoder::<i32, i32>::default();
    let mut buf = BytesMut::new();
    buf.extend_from_slice(&bytes[..first_len - 1]);
    assert!(matches!(decoder.decode(&mut buf), Ok(None)));
    buf.extend_from_slice(&bytes[first_len - 1..]);
    let mut out = vec![];
    while let Some(m) = decoder.decode(&mut buf).expect("the second frame was mis-read as a take/drop header") {
        out.push(m);
    }
    assert_eq!(out, vec![crate::MapMessage::Update { key: 1, value: 2 }, crate::MapMessage::Remove { key: 12 }]);
}
