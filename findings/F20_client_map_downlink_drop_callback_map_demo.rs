// Demonstration for the C08 defect repaired by /repo commit 5b89608 (F20): the stand-alone client map
// downlink emptied its map before running the on_remove callbacks of Drop(n), so on_remove saw an empty map although the
// entries after the first n are retained (and for Take(n) it saw the final map, not the map at the time of each removal).
// Found by the bounded harness bx/swimos_downlink/map_task.rs once it compared the map argument of on_remove.
// Append to swimos_downlink/src/task/map.rs as `#[cfg(test)] mod verif_f20 { ... }` on the parent of the fix: the test fails
// there and passes on the repaired tree.
use super::*;
use crate::model::lifecycle::BasicMapDownlinkLifecycle;
use std::sync::{Arc, Mutex};

#[test]
fn on_remove_sees_the_retained_entries_during_drop() {
    let seen: Arc<Mutex<Vec<(i32, BTreeMap<i32, i32>)>>> = Default::default();
    let mut lifecycle = BasicMapDownlinkLifecycle::<i32, i32>::default().with(seen.clone()).on_removed_blocking(|seen, key, map, _removed| {
        seen.lock().unwrap().push((key, map.clone()));
    });
    let mut map: BTreeMap<i32, i32> = [(1, 10), (2, 20), (3, 30)].into_iter().collect();
    futures::executor::block_on(on_event(&mut map, &mut lifecycle, MapMessage::Drop(1), true));
    assert_eq!(map, [(2, 20), (3, 30)].into_iter().collect());
    let expected: BTreeMap<i32, i32> = [(2, 20), (3, 30)].into_iter().collect();
    assert_eq!(*seen.lock().unwrap(), vec![(1, expected)]); // was (1, {})
}
