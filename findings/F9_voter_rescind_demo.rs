// Demonstration for the C17 defect repaired by /repo commit b2df1ad (found by the Kani harness kx/swimos_runtime/timeout_coord.rs,
// obligation timeout_coord::rescind_*::preserves_invariant; these are the Kani playback inputs written as plain tests).
// Append to runtime/swimos_runtime/src/timeout_coord/mod.rs as `#[cfg(test)] mod verif_f9 { ... }` on the parent of b2df1ad:
// both tests fail there and pass on the repaired tree.
use super::*;
use futures::FutureExt;

#[test]
fn rescinded_then_dropped_counts_as_vote() {
    // A voter that voted, withdrew its vote and is then dropped must count as having voted (a dropped party can never vote
    // again), otherwise the receiver waits forever. Before the fix `voted` stayed true after rescind, so Drop did not vote.
    let (a, b, c, mut rx) = agent_timeout_coordinator();
    assert_eq!(a.vote(), VoteResult::UnanimityPending);
    assert_eq!(a.rescind(), VoteResult::UnanimityPending);
    drop(a);
    assert_eq!(b.vote(), VoteResult::UnanimityPending);
    assert_eq!(c.vote(), VoteResult::Unanimous);
    assert!((&mut rx).now_or_never().is_some());
}

#[test]
fn double_rescind_is_not_unanimous() {
    // Two parties: vote, rescind, rescind. The second rescind found flags == INIT != flag, the compare_exchange failed and it
    // answered Unanimous although nobody has a vote outstanding.
    let (a, _b, _rx) = downlink_timeout_coordinator();
    assert_eq!(a.vote(), VoteResult::UnanimityPending);
    assert_eq!(a.rescind(), VoteResult::UnanimityPending);
    assert_eq!(a.rescind(), VoteResult::UnanimityPending);
}
