// Demonstration for the C10 (and C09) defect repaired by /repo commit e75e5a0 (F10): a frame body that is a bare top-level
// number or identifier was decoded TRUNCATED when the body arrived in two reads (42 as 4|2 => 4; plain as pl|ain => "pl"),
// and -5 as -|5 failed with a syntax error, although the unsplit body decodes correctly.
// Found by the bounded harness bx/swimos_agent_protocol/codecs.rs (obligation DownlinkNotification_i32_bodies_::
// fragmentation_independent_exact_round_trip) and independently by the sub-agent producing the second round of C10 seeds.
// Append to api/swimos_agent_protocol/src/downlink/mod.rs as `#[cfg(test)] mod verif_f10 { ... }` on the parent of e75e5a0:
// both tests fail there and pass on the repaired tree.
use super::*;
use bytes::BytesMut;
use tokio_util::codec::{Decoder, Encoder};

fn frame(body: &str) -> Vec<u8> {
    let mut out = BytesMut::new();
    DownlinkNotificationEncoder
        .encode(DownlinkNotification::Event { body: body.as_bytes() }, &mut out)
        .expect("encode");
    out.to_vec()
}

fn decode_split(bytes: &[u8], cut: usize) -> Result<Option<DownlinkNotification<i32>>, String> {
    let mut decoder = ValueNotificationDecoder::<i32>::default();
    let mut buf = BytesMut::new();
    buf.extend_from_slice(&bytes[..cut]);
    match decoder.decode(&mut buf) {
        Ok(None) => {}
        Ok(Some(n)) => return Err(format!("decoded {:?} from a strict prefix of the frame", n)),
        Err(e) => return Err(format!("error on a strict prefix of the frame: {e}")),
    }
    buf.extend_from_slice(&bytes[cut..]);
    decoder.decode(&mut buf).map_err(|e| e.to_string())
}

#[test]
fn number_split_between_its_digits_decodes_whole() {
    let bytes = frame("42");
    let cut = bytes.len() - 1; // 4|2
    assert_eq!(decode_split(&bytes, cut), Ok(Some(DownlinkNotification::Event { body: 42 })));
}

#[test]
fn number_split_after_its_sign_decodes() {
    let bytes = frame("-77");
    let cut = bytes.len() - 2; // -|77
    assert_eq!(decode_split(&bytes, cut), Ok(Some(DownlinkNotification::Event { body: -77 })));
}
