// Demonstrations for the C19 defects repaired by /repo commits e74247e, 3a3b074, 11347f6, 25720b6
// (found by the bounded pool harness bx/swimos_model/value_pool.rs and the Kani cells kx/swimos_model/value_laws.rs).
// Append to api/swimos_model/src/value.rs as `#[cfg(test)] mod verif_f16 { ... }` on the parent of e74247e: every test fails
// there and passes on the repaired tree.
use super::*;
use num_bigint::{BigInt, BigUint};
use std::cmp::Ordering;
use std::collections::hash_map::DefaultHasher;
use std::hash::{Hash, Hasher};

#[test]
fn data_vs_text_and_record_is_antisymmetric() {
    let d = Value::Data(Blob::from_vec(vec![]));
    let t = Value::text("");
    let r = Value::Record(vec![], vec![]);
    assert_eq!(t.cmp(&d), d.cmp(&t).reverse()); // was Less / Less
    assert_eq!(r.cmp(&d), d.cmp(&r).reverse()); // was Less / Less
}
#[test]
fn bigint_vs_float_is_antisymmetric() {
    let two128: BigInt = BigInt::from(u128::MAX) + 1;
    let a = Value::Float64Value(f64::NEG_INFINITY);
    let b = Value::BigInt(-two128);
    assert_eq!(a.cmp(&b), b.cmp(&a).reverse()); // was Less / Less
    let c = Value::Float64Value(f64::MIN_POSITIVE);
    let z = Value::BigUint(BigUint::from(0u32));
    assert_eq!(c.cmp(&z), z.cmp(&c).reverse()); // was Greater / Equal
    let n = Value::Float64Value(f64::NAN);
    let z = Value::BigInt(BigInt::from(0));
    assert_eq!(n.cmp(&z), z.cmp(&n).reverse()); // was Less / Equal
}
#[test]
fn infinity_compares_equal_to_itself() {
    let a = Value::Float64Value(f64::INFINITY);
    assert_eq!(a.cmp(&a), Ordering::Equal); // was Greater
}
#[test]
fn zeros_hash_equally() {
    let h = |v: &Value| {
        let mut s = DefaultHasher::new();
        v.hash(&mut s);
        s.finish()
    };
    let (p, n) = (Value::Float64Value(0.0), Value::Float64Value(-0.0));
    assert!(p == n);
    assert_eq!(h(&p), h(&n)); // differed
}
