// Demonstration for finding F24, repaired in /repo (property C17; found by the bounded harness bx/swimos_runtime/agent_inactivity.rs,
// witness [inactive timeout 100 ms; no remote attached; an HTTP request every 30 ms]; first noticed by the round-5 C17 seeding
// sub-agent while reading the unchanged code).
// Append to runtime/swimos_runtime/src/agent/task/tests/coordination.rs as `#[cfg(test)] mod verif_f24 { ... }`:
// the test FAILED before the repair (the runtime stops after ~100 ms although the HTTP task is busy and cannot have voted): the
// write task leaves its loop at its inactivity timeout without voting when no remote is attached
// (`if !state.has_remotes() { break; }`), and the end of the write task stops the read and HTTP tasks.
// Repair: the shortcut is removed, the write task votes as it does with remotes attached.
use super::*;

#[tokio::test]
async fn http_only_agent_is_not_stopped_while_serving_requests() {
    let (_, alive) = run_test_case(INACTIVE_TEST_TIMEOUT, DEFAULT_TIMEOUT, None, |context| async move {
        let TestContext { att_tx: _att_tx, http_tx, links_rx: _links_rx, create_tx: _create_tx, mut event_rx, stop_tx } = context;
        let start = std::time::Instant::now();
        let mut alive = true;
        while start.elapsed() < 4 * INACTIVE_TEST_TIMEOUT {
            let (request, response_rx) = HttpLaneRequest::new(HttpRequest {
                method: Method::GET,
                version: Version::HTTP_1_1,
                uri: Uri::from_static(HTTP_URI),
                headers: vec![],
                payload: Bytes::from("Request"),
            });
            if http_tx.send(request).await.is_err() {
                alive = false;
                break;
            }
            let Events(inner) = &mut event_rx;
            if !matches!(tokio::time::timeout(Duration::from_millis(200), inner.recv()).await, Ok(Some(_))) {
                alive = false;
                break;
            }
            if !matches!(tokio::time::timeout(Duration::from_millis(200), response_rx).await, Ok(Ok(_))) {
                alive = false;
                break;
            }
            tokio::time::sleep(INACTIVE_TEST_TIMEOUT / 3).await;
        }
        (alive, stop_tx)
    })
    .await;
    assert!(alive.0, "The runtime stopped for inactivity while HTTP requests were being served.");
}
