// Demonstration for the C07 defect repaired by /repo commit 8d295be (F21; found by the bounded harness
// bx/swimos_runtime/downlink_read_task.rs, witness [Linked, Attach { sync: false }, Event(1)]; first noticed by the
// sub-agent that produced the C07 seeds as an intermittent hang of one of its demos).
// Append to runtime/swimos_runtime/src/downlink/mod.rs as `#[cfg(test)] mod verif_f21 { ... }` on the parent of 8d295be:
// the test fails there (the consumer receives `linked` and nothing else) and passes on the repaired tree.
use super::interpretation::value_interpretation;
use super::*;
use crate::downlink::failure::InfallibleStrategy;
use crate::timeout_coord::downlink_timeout_coordinator;
use swimos_agent_protocol::encoding::downlink::ValueNotificationDecoder;
use swimos_messages::protocol::ResponseMessageEncoder;
use swimos_utilities::{byte_channel, non_zero_usize};

#[tokio::test]
async fn late_consumer_without_sync_receives_events() {
    let (msg_tx, msg_rx) = byte_channel::byte_channel(non_zero_usize!(4096));
    let mut remote = FramedWrite::new(msg_tx, ResponseMessageEncoder);
    let (consumers_tx, consumers_rx) = mpsc::channel(8);
    let config = DownlinkRuntimeConfig {
        empty_timeout: Duration::from_secs(100_000),
        attachment_queue_size: non_zero_usize!(8),
        abort_on_bad_frames: true,
        remote_buffer_size: non_zero_usize!(4096),
        downlink_buffer_size: non_zero_usize!(4096),
    };
    let (read_vote, _write_vote, _vote_rx) = downlink_timeout_coordinator();
    let task = tokio::spawn(read_task(msg_rx, consumers_rx, config, value_interpretation(), InfallibleStrategy, read_vote));
    let addr = Uuid::from_u128(7);
    // the link is already up when the consumer attaches
    remote.send(ResponseMessage::<&str, i32, &[u8]>::linked(addr, RelativeAddress::new("/node", "lane"))).await.unwrap();
    tokio::time::sleep(Duration::from_millis(50)).await;
    let (tx, rx) = byte_channel::byte_channel(non_zero_usize!(4096));
    consumers_tx.send((tx, DownlinkOptions::empty())).await.unwrap();
    let mut reader = FramedRead::new(rx, ValueNotificationDecoder::<i32>::default());
    assert!(matches!(reader.next().await, Some(Ok(DownlinkNotification::Linked))));
    remote.send(ResponseMessage::<&str, i32, &[u8]>::event(addr, RelativeAddress::new("/node", "lane"), 1)).await.unwrap();
    let got = tokio::time::timeout(Duration::from_secs(2), reader.next()).await;
    assert!(matches!(got, Ok(Some(Ok(DownlinkNotification::Event { body: 1 })))), "the consumer did not receive the event: {:?}", got.is_ok());
    task.abort();
}
