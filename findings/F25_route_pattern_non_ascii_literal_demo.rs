// Demonstration for finding F25, repaired in /repo by 0a5a1db (property C18; found by the bounded harness
// bx/swimos_route/route_pattern.rs, obligation multi_byte_characters_do_not_shift_segment_boundaries, witness pattern "/café/:id").
// Append to swimos_utilities/swimos_route/src/route_pattern/mod.rs as `#[cfg(test)] mod verif_f25 { ... }` on the parent of
// 0a5a1db: the test fails there (apply yields "/café/hello", which is not a valid route URI and does not match the pattern it
// was made from) and passes on the repaired tree (apply yields "/caf%C3%A9/hello").
use super::*;

#[test]
fn a_pattern_with_a_non_ascii_literal_matches_its_own_instantiation() {
    let pattern = RoutePattern::parse_str("/caf\u{e9}/:id").expect("parse");
    let mut params = HashMap::new();
    params.insert("id".to_string(), "hello".to_string());
    let route = pattern.apply(&params).expect("apply");
    let back = pattern.unapply_str(&route).expect("the instantiation of a pattern must match that pattern");
    assert_eq!(back, params);
}
