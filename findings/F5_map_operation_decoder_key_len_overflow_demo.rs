// Demonstration for finding F5 (property C10): add to api/swimos_agent_protocol/src/map/tests.rs
// Panics before commit "fix: raw map operation decoder rejects an oversized key length without overflowing", passes after.
#[test]
fn verif_f5_corrupt_key_length_is_an_error_not_a_panic() {
    use bytes::BufMut;
    let mut buffer = BytesMut::new();
    buffer.put_u64(17); // record size: tag + key length + 8 bytes of payload
    buffer.put_u8(0); // UPDATE
    buffer.put_u64(u64::MAX); // corrupt key length
    buffer.put_u64(0); // payload
    let mut decoder = RawMapOperationDecoder;
    let result = std::panic::catch_unwind(std::panic::AssertUnwindSafe(|| decoder.decode(&mut buffer)));
    match result {
        Ok(Err(_)) => {}
        Ok(Ok(item)) => panic!("Corrupt frame decoded to {:?}", item),
        Err(_) => panic!("The decoder panicked on a corrupt key length."),
    }
}
