// ---- verif demonstrations (C04/C01: no fabricated frames)
#[test]
fn verif_f3_value_synced_alone_does_not_fabricate_an_event() {
    let lane_names = lane_names();
    let (mut uplinks, _reader, ..) = make_uplinks();
    // sync of a value lane: the sync event goes out at once (writer idle) ...
    let WriteTask { sender, buffer, action } = uplinks
        .push(0, UplinkResponse::Value(Bytes::from_static(b"1")), &lane_names)
        .unwrap()
        .expect("Expected immediate write.");
    assert!(matches!(action, WriteAction::Event));
    // ... and the synced marker arrives while that write is still in flight
    assert!(uplinks.push(0, UplinkResponse::Synced(UplinkKind::Value), &lane_names).unwrap().is_none());
    let WriteTask { action, buffer, .. } = uplinks
        .replace_and_pop(sender, buffer, &lane_names)
        .expect("Expected the synced marker.");
    // nothing is pending for the lane: only `synced` may be sent, no event
    match action {
        WriteAction::ValueSynced(send_event) => assert!(!send_event, "an event with body {:?} was fabricated", buffer.as_ref()),
        ow => panic!("Unexpected action {:?}", ow),
    }
}

#[test]
fn verif_f3_stale_queue_entry_does_not_fabricate_an_event() {
    let lane_names = lane_names();
    let (mut uplinks, _reader, ..) = make_uplinks();
    let WriteTask { sender, buffer, .. } = uplinks
        .push_special(SpecialAction::Linked(0), &lane_names)
        .expect("Expected immediate write.");
    // writer busy: a value is queued, the lane is unlinked (purging it), re-linked and written again
    assert!(uplinks.push(0, UplinkResponse::Value(Bytes::from_static(b"1")), &lane_names).unwrap().is_none());
    assert!(uplinks.push_special(SpecialAction::unlinked(0, Text::empty()), &lane_names).is_none());
    assert!(uplinks.push_special(SpecialAction::Linked(0), &lane_names).is_none());
    assert!(uplinks.push(0, UplinkResponse::Value(Bytes::from_static(b"2")), &lane_names).unwrap().is_none());
    let mut writer = Some((sender, buffer));
    let mut events = vec![];
    loop {
        let (s, b) = writer.take().unwrap();
        match uplinks.replace_and_pop(s, b, &lane_names) {
            Some(WriteTask { sender, buffer, action }) => {
                if matches!(action, WriteAction::Event) {
                    events.push(buffer.as_ref().to_vec());
                }
                writer = Some((sender, buffer));
            }
            None => break,
        }
    }
    // exactly one event body was owed after the re-link: "2"
    assert_eq!(events, vec![b"2".to_vec()]);
}

#[test]
fn verif_f3_empty_value_body_is_still_delivered_with_synced() {
    let lane_names = lane_names();
    let (mut uplinks, _reader, ..) = make_uplinks();
    let WriteTask { sender, buffer, .. } = uplinks
        .push_special(SpecialAction::Linked(0), &lane_names)
        .expect("Expected immediate write.");
    // a value whose Recon body is empty (e.g. an absent Option) followed by synced, behind a busy writer
    assert!(uplinks.push(0, UplinkResponse::Value(Bytes::new()), &lane_names).unwrap().is_none());
    assert!(uplinks.push(0, UplinkResponse::Synced(UplinkKind::Value), &lane_names).unwrap().is_none());
    let WriteTask { action, buffer, .. } = uplinks
        .replace_and_pop(sender, buffer, &lane_names)
        .expect("Expected the synced marker.");
    match action {
        WriteAction::ValueSynced(send_event) => {
            assert!(send_event, "the pending (empty-bodied) value must be sent before synced");
            assert!(buffer.is_empty());
        }
        ow => panic!("Unexpected action {:?}", ow),
    }
}

#[test]
fn verif_f3_stale_map_queue_entry_does_not_fabricate_an_event() {
    let lane_names = lane_names();
    let (mut uplinks, _reader, ..) = make_uplinks();
    let WriteTask { sender, buffer, .. } = uplinks
        .push_special(SpecialAction::Linked(0), &lane_names)
        .expect("Expected immediate write.");
    let op = |v: &'static [u8]| UplinkResponse::Map(MapOperation::Update { key: BytesMut::from(&b"k"[..]), value: BytesMut::from(v) });
    assert!(uplinks.push(0, op(b"1"), &lane_names).unwrap().is_none());
    assert!(uplinks.push_special(SpecialAction::unlinked(0, Text::empty()), &lane_names).is_none());
    assert!(uplinks.push_special(SpecialAction::Linked(0), &lane_names).is_none());
    assert!(uplinks.push(0, op(b"2"), &lane_names).unwrap().is_none());
    let mut writer = Some((sender, buffer));
    let mut events = vec![];
    loop {
        let (s, b) = writer.take().unwrap();
        match uplinks.replace_and_pop(s, b, &lane_names) {
            Some(WriteTask { sender, buffer, action }) => {
                if matches!(action, WriteAction::Event) {
                    events.push(buffer.as_ref().to_vec());
                }
                writer = Some((sender, buffer));
            }
            None => break,
        }
    }
    assert_eq!(events.len(), 1, "events: {:?}", events);
    assert!(!events[0].is_empty());
}
