// Demonstration for finding F11 (property C10): add to api/swimos_agent_protocol/src/command/tests.rs
// Fails before commit "fix: command decoder resumes a fragmented registration frame", passes after.
#[test]
fn verif_f11_fragmented_registration_round_trips() {
    let message: CommandMessage<&str, &[u8]> = CommandMessage::Register {
        address: Address::new(None, "/n", "l"),
        id: 3,
    };
    let mut encoded = BytesMut::new();
    RawCommandMessageEncoder::default().encode(message, &mut encoded).unwrap();
    let bytes = encoded.to_vec();
    for cut in 0..=bytes.len() {
        let mut decoder = RawCommandMessageDecoder::<swimos_utilities::encoding::BytesStr>::default();
        let mut buffer = BytesMut::new();
        buffer.extend_from_slice(&bytes[..cut]);
        let first = decoder.decode(&mut buffer).expect("Decode failed.");
        let result = if first.is_some() {
            first
        } else {
            buffer.extend_from_slice(&bytes[cut..]);
            decoder.decode(&mut buffer).expect("Decode failed.")
        };
        match result {
            Some(CommandMessage::Register { address, id }) => {
                assert_eq!(address.node.as_str(), "/n");
                assert_eq!(address.lane.as_str(), "l");
                assert_eq!(id, 3);
            }
            ow => panic!("cut at {}: unexpected result {:?}", cut, ow),
        }
        assert!(buffer.is_empty(), "cut at {}: {} bytes left", cut, buffer.len());
    }
}
