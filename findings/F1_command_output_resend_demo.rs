// Demonstration for finding F1 (property C14): append to runtime/swimos_runtime/src/agent/task/external_links/tests.rs
// Fails before commit "fix: command output no longer re-sends the previous write", passes after.
#[tokio::test]
async fn verif_f1_commands_are_forwarded_once_each() {
    let (tx, rx) = byte_channel::byte_channel(BUFFER_SIZE);
    let mut output = external_links::CommandOutput::new(ID, RetryStrategy::none());
    output.replace_writer(external_links::CmdChannelWriter::new(tx));
    let addr = RelativeAddress::text("/node", "lane");
    output.append(&addr, b"A", false);
    let writer = output.write().expect("scheduled").await.expect("write failed");
    output.replace_writer(writer);
    // two more commands while idle: `dirty` has two entries, so the multi-target branch is taken
    output.append(&addr, b"B", false);
    output.append(&addr, b"C", false);
    let fut = output.write().expect("scheduled");
    let requests = run_write_fut(fut, rx).await;
    let bodies: Vec<Vec<u8>> = requests
        .iter()
        .map(|r| match &r.envelope {
            Operation::Command(body) => body.as_ref().to_vec(),
            ow => panic!("Unexpected envelope: {:?}", ow),
        })
        .collect();
    assert_eq!(bodies, vec![b"A".to_vec(), b"B".to_vec(), b"C".to_vec()]);
}
