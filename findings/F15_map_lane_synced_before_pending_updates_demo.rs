// Demonstration for finding F15 (property C03): add to server/swimos_agent/src/lanes/map/tests.rs
// Fails before commit "fix: a pending clear no longer completes a map lane sync early", passes after.
#[test]
fn verif_f15_synced_is_not_sent_before_the_entries_the_lane_held_throughout() {
    use swimos_agent_protocol::encoding::lane::RawMapLaneResponseDecoder;
    use swimos_agent_protocol::LaneResponse;
    use tokio_util::codec::Decoder;

    let lane: MapLane<i32, String> = MapLane::new(ID, Default::default());
    // the events for a clear and a later update are still queued when a remote asks to sync
    lane.clear();
    lane.update(1, "a".to_owned());
    lane.sync(SYNC_ID1);

    // what the syncing remote has in its replica when it is told `synced`
    let mut replica: HashMap<i32, String> = HashMap::new();
    let mut decoder = RawMapLaneResponseDecoder::default();
    let mut synced = false;
    'outer: loop {
        let mut buffer = BytesMut::new();
        let result = lane.write_to_buffer(&mut buffer);
        while let Some(response) = decoder.decode(&mut buffer).expect("Bad frame.") {
            let op = match response {
                LaneResponse::StandardEvent(op) | LaneResponse::SyncEvent(_, op) => op,
                LaneResponse::Synced(_) => {
                    synced = true;
                    break 'outer;
                }
                _ => continue,
            };
            match op {
                MapOperation::Update { key, value } => {
                    let k: i32 = std::str::from_utf8(key.as_ref()).unwrap().parse().unwrap();
                    replica.insert(k, String::from_utf8(value.to_vec()).unwrap());
                }
                MapOperation::Remove { key } => {
                    let k: i32 = std::str::from_utf8(key.as_ref()).unwrap().parse().unwrap();
                    replica.remove(&k);
                }
                MapOperation::Clear => replica.clear(),
            }
        }
        if !matches!(result, WriteResult::DataStillAvailable) {
            break;
        }
    }
    assert!(synced);
    // the lane has held 1 -> "a" ever since the sync was requested
    assert_eq!(replica.get(&1).map(String::as_str), Some("a"), "replica at synced: {:?}", replica);
}
