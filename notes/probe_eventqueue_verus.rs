#![feature(allocator_api)]
use vstd::prelude::*;
use std::collections::{HashMap, VecDeque};
use std::hash::Hash;
use vstd::std_specs::hash::*;
verus! {
broadcast use vstd::std_specs::hash::group_hash_axioms, vstd::std_specs::vecdeque::group_vec_dequeue_axioms;

pub assume_specification<T, A: std::alloc::Allocator> [std::collections::VecDeque::<T, A>::get_mut] (v: &mut VecDeque<T, A>, i: usize) -> (r: Option<&mut T>)
    ensures
        i < old(v)@.len() ==> r.is_some(),
        i >= old(v)@.len() ==> r.is_none() && final(v)@ == old(v)@,
        r.is_some() ==> *r.unwrap() == old(v)@[i as int] && final(v)@ == old(v)@.update(i as int, *final(r.unwrap())),
;
pub assume_specification<T, A: std::alloc::Allocator> [std::collections::VecDeque::<T, A>::is_empty] (v: &VecDeque<T, A>) -> (r: bool)
    ensures r == (v@.len() == 0);

pub enum MapOperation<K, V> {
    Update { key: K, value: V },
    Remove { key: K },
    Clear,
}

pub struct EventQueue<K, V> {
    events: VecDeque<MapOperation<K, V>>,
    head_epoch: usize,
    epoch_map: HashMap<K, usize>,
}

pub open spec fn op_key<K, V>(op: MapOperation<K, V>) -> Option<K> {
    match op {
        MapOperation::Update { key, .. } => Some(key),
        MapOperation::Remove { key } => Some(key),
        MapOperation::Clear => None,
    }
}

pub open spec fn wadd(a: usize, b: int) -> usize { if a as int + b <= usize::MAX as int { (a as int + b) as usize } else { (a as int + b - usize::MAX as int - 1) as usize } }
pub open spec fn wsub(a: usize, b: usize) -> int { if a >= b { a as int - b as int } else { a as int + usize::MAX as int + 1 - b as int } }


impl<K, V> EventQueue<K, V>
where
    K: Clone + Eq + Hash,
{
    pub closed spec fn wf(&self) -> bool {
        &&& forall|i: int| 0 <= i < self.events@.len() ==> match op_key(#[trigger] self.events@[i]) {
                Some(k) => self.epoch_map@.contains_key(k) && self.epoch_map@[k] == wadd(self.head_epoch, i),
                None => i == 0,
            }
        &&& forall|k: K| #[trigger] self.epoch_map@.contains_key(k) ==> {
                let i = wsub(self.epoch_map@[k], self.head_epoch);
                0 <= i < self.events@.len() && op_key(self.events@[i]) == Some(k)
            }
    }

    pub fn push(&mut self, action: MapOperation<K, V>)
        requires old(self).wf(), obeys_key_model::<K>(), forall|a: K, b: K| call_ensures(K::clone, (&a,), b) ==> a == b,
        ensures final(self).wf(),
    {
        let EventQueue {
            events,
            head_epoch,
            epoch_map,
        } = self;
        match action {
            MapOperation::Clear => {
                *head_epoch = 0;
                events.clear();
                epoch_map.clear();
                events.push_back(MapOperation::Clear);
            }
            MapOperation::Update { key: k, value: v } => {
                if let Some(entry) = (match epoch_map.get(&k) { Some(epoch) => {
                    let index = epoch.wrapping_sub(*head_epoch);
                    debug_assert!(index < events.len());
                    events.get_mut(index)
                }, None => None }) {
                    *entry = MapOperation::Update { key: k, value: v };
                } else {
                    let epoch = head_epoch.wrapping_add(events.len());
                    events.push_back(MapOperation::Update {
                        key: k.clone(),
                        value: v,
                    });
                    epoch_map.insert(k, epoch);
                }
            }
            MapOperation::Remove { key: k } => {
                if let Some(entry) = (match epoch_map.get(&k) { Some(epoch) => {
                    let index = epoch.wrapping_sub(*head_epoch);
                    debug_assert!(index < events.len());
                    events.get_mut(index)
                }, None => None }) {
                    *entry = MapOperation::Remove { key: k };
                } else {
                    let epoch = head_epoch.wrapping_add(events.len());
                    events.push_back(MapOperation::Remove { key: k.clone() });
                    epoch_map.insert(k, epoch);
                }
            }
        }
    }

    pub fn pop(&mut self) -> (r: Option<MapOperation<K, V>>)
        requires old(self).wf(), obeys_key_model::<K>(),
        ensures final(self).wf(),
    {
        let EventQueue {
            events,
            head_epoch,
            epoch_map,
        } = self;
        if let Some(entry) = events.pop_front() {
            *head_epoch = head_epoch.wrapping_add(1);
            if let MapOperation::Update { key: k, .. } | MapOperation::Remove { key: k } = &entry {
                epoch_map.remove(k);
            }
            proof {
                assert forall|i: int| 0 <= i < events@.len() implies match op_key(#[trigger] events@[i]) {
                    Some(k) => epoch_map@.contains_key(k) && epoch_map@[k] == wadd(*head_epoch, i),
                    None => i == 0,
                } by {
                    assert(events@[i] == old(self).events@[i + 1]);
                    assert(old(self).events@[0] == entry);
                    let o = op_key(old(self).events@[i + 1]);
                    let e = op_key(old(self).events@[0]);
                    if o is Some && e is Some && o == e {
                        assert(old(self).epoch_map@[o.unwrap()] == wadd(old(self).head_epoch, i + 1));
                        assert(old(self).epoch_map@[o.unwrap()] == wadd(old(self).head_epoch, 0));
                        assert(old(self).events@.len() <= usize::MAX);
                        assert(i + 1 < old(self).events@.len());
                        assert(wadd(old(self).head_epoch, 0) == old(self).head_epoch);
                        assert(wadd(old(self).head_epoch, i+1) != old(self).head_epoch);
                        assert(false);
                    }
                }
            }
            Some(entry)
        } else {
            None
        }
    }
    pub fn is_empty(&self) -> bool {
        self.events.is_empty()
    }
}
}
fn main() {}
