#![feature(allocator_api)]
use vstd::prelude::*;
use std::collections::{HashMap, VecDeque};
verus! {
use vstd::std_specs::hash::*;
broadcast use vstd::std_specs::hash::group_hash_axioms, vstd::std_specs::vecdeque::group_vec_dequeue_axioms;


pub assume_specification<T> [std::mem::replace] (dest: &mut T, src: T) -> (r: T)
    ensures r == *old(dest), *final(dest) == src;

pub assume_specification<'a, K: std::cmp::Eq + std::hash::Hash + std::borrow::Borrow<Q>, V, S: std::hash::BuildHasher, A: std::alloc::Allocator, Q: std::hash::Hash + std::cmp::Eq + ?Sized> [std::collections::HashMap::<K, V, S, A>::get_mut] (m: &'a mut HashMap<K, V, S, A>, k: &Q) -> (r: Option<&'a mut V>)
    ensures
        !contains_borrowed_key(old(m)@, k) ==> r.is_none() && final(m)@ == old(m)@,
        contains_borrowed_key(old(m)@, k) ==> r.is_some() && maps_borrowed_key_to_value(old(m)@, k, *r.unwrap());

#[verifier::external_body]
pub struct BytesMut { _p: core::marker::PhantomData<u8> }
impl View for BytesMut { type V = Seq<u8>; uninterp spec fn view(&self) -> Seq<u8>; }
impl BytesMut {
    #[verifier::external_body]
    pub fn clear(&mut self) ensures final(self)@ == Seq::<u8>::empty() { unimplemented!() }
    #[verifier::external_body]
    pub fn is_empty(&self) -> (r: bool) ensures r == (self@.len() == 0) { unimplemented!() }
}

#[derive(Default)]
pub struct VB { pub current: BytesMut }
impl Default for BytesMut { #[verifier::external_body] fn default() -> (r: Self) ensures r@ == Seq::<u8>::empty() { unimplemented!() } }

impl VB {
    pub fn prepare_write(&mut self, buffer: &mut BytesMut)
        ensures final(buffer)@ == old(self).current@, final(self).current@ == Seq::<u8>::empty()
    {
        std::mem::swap(&mut self.current, buffer);
        self.current.clear();
    }
    pub fn has_data(&self) -> (r: bool) ensures r == (self.current@.len() > 0) {
        !self.current.is_empty()
    }
}

#[derive(Default)]
pub struct Uplink<B> { pub queued: bool, pub send_synced: bool, pub backpressure: B }

pub enum Act { Event, ValueSynced(bool) }

pub fn pop(value_uplinks: &mut HashMap<u64, Uplink<VB>>, write_queue: &mut VecDeque<(u8, u64)>, buffer: &mut BytesMut) -> (r: Option<Act>)
{
    loop 
        decreases write_queue@.len()
    {
        if let Some((kind, lane_id)) = write_queue.pop_front() {
            if let Some(Uplink { queued, send_synced, backpressure }) = value_uplinks.get_mut(&lane_id) {
                *queued = false;
                let synced = std::mem::replace(send_synced, false);
                backpressure.prepare_write(buffer);
                let action = if synced { Act::ValueSynced(true) } else { Act::Event };
                return Some(action);
            }
        } else {
            return None;
        }
    }
}

}
fn main() {}
