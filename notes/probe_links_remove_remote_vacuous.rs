#![feature(allocator_api)]
use vstd::prelude::*;
use std::collections::{HashMap, HashSet};
use std::collections::hash_map::Entry;
use vstd::std_specs::hash::*;
verus! {
broadcast use vstd::std_specs::hash::group_hash_axioms;

pub struct LaneLinks { pub remotes: HashSet<u128>, pub rep: Option<u64> }

impl LaneLinks {
    fn remove(&mut self, remote_id: &u128, count: &mut u64)
        ensures final(self).remotes@ == old(self).remotes@.remove(*remote_id),
                final(self).rep == old(self).rep,
    {
        let LaneLinks { remotes, rep } = self;
        if remotes.remove(remote_id) {
            *count = count.saturating_sub(1);
        }
    }
    fn is_empty(&self) -> (r: bool) ensures r == (self.remotes@.len() == 0) { self.remotes.len() == 0 }
}

pub fn remove_remote(forward: &mut HashMap<u64, LaneLinks>, lane_id: u64, id: u128, total_count: &mut u64)
    ensures
        old(forward)@.contains_key(lane_id) && old(forward)@[lane_id].remotes@.remove(id).len() > 0
            ==> final(forward)@.contains_key(lane_id),
        old(forward)@.contains_key(lane_id) && old(forward)@[lane_id].remotes@.remove(id).len() == 0 ==> false,
        old(forward)@.contains_key(lane_id) && old(forward)@[lane_id].rep.is_some()
            ==> final(forward)@.contains_key(lane_id) && final(forward)@[lane_id].rep == old(forward)@[lane_id].rep,
{
    if let Entry::Occupied(mut entry) = forward.entry(lane_id) {
        entry.get_mut().remove(&id, total_count);
        if entry.get().is_empty() {
            entry.remove();
        }
    }
}
}
fn main() {}
