#![feature(allocator_api)]
use vstd::prelude::*;
use std::collections::{HashMap, HashSet};
use std::collections::hash_map::Entry;
use vstd::std_specs::hash::*;
verus! {
broadcast use vstd::std_specs::hash::group_hash_axioms;

pub fn t1(forward: &mut HashMap<u64, u64>, lane_id: u64)
    ensures old(forward)@.contains_key(lane_id) ==> false,
{
    if let Entry::Occupied(entry) = forward.entry(lane_id) {
        entry.remove();
    }
}
pub fn t2(forward: &mut HashMap<u64, u64>, lane_id: u64)
    ensures old(forward)@.contains_key(lane_id) ==> false,
{
    if let Entry::Occupied(mut entry) = forward.entry(lane_id) {
        let r = entry.get_mut();
        *r = 5;
    }
}
pub fn t3(forward: &mut HashMap<u64, u64>, lane_id: u64)
    ensures old(forward)@.contains_key(lane_id) ==> false,
{
    if let Entry::Occupied(mut entry) = forward.entry(lane_id) {
        let r = entry.get_mut();
        *r = 5;
        if *entry.get() == 5 { entry.remove(); }
    }
}
pub fn t4(forward: &mut HashMap<u64, u64>, lane_id: u64)
    ensures old(forward)@.contains_key(lane_id) ==> final(forward)@ == old(forward)@.remove(lane_id),
{
    if let Entry::Occupied(entry) = forward.entry(lane_id) {
        entry.remove();
    }
}
pub fn t5(forward: &mut HashMap<u64, u64>, lane_id: u64)
    ensures old(forward)@.contains_key(lane_id) ==> final(forward)@ == old(forward)@.insert(lane_id, 5),
{
    if let Entry::Occupied(mut entry) = forward.entry(lane_id) {
        let r = entry.get_mut();
        *r = 5;
    }
}
}
fn main() {}
