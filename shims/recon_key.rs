// Trusted stand-in for `ReconKey` (runtime/swimos_runtime/src/backpressure/key/mod.rs): bytes holding valid UTF-8 whose
// Eq / Hash compare the Recon VALUE the text denotes (compare_recon_values / recon_hash), not the bytes.
// ASSUMPTION (property C15, not decided here): that comparison is an equivalence relation and the hash respects it. The
// stand-in therefore identifies a key with its equivalence class `class()`; which byte string represents the class is
// deliberately not observable in specifications (`into_bytes` only promises some text of the same class).
// (is_utf8 / Utf8Error: shim utf8)
// the equivalence class (Recon value) denoted by a UTF-8 text
pub uninterp spec fn recon_class(s: Seq<u8>) -> int;
#[verifier::external_body]
#[verifier::reject_recursive_types_in_ground_variants]
pub struct ReconKey { _p: core::marker::PhantomData<u8> }
impl ReconKey {
    pub uninterp spec fn class(&self) -> int;
    #[verifier::external_body]
    pub fn try_from(content: Bytes) -> (r: Result<ReconKey, std::str::Utf8Error>)
        ensures r is Ok == is_utf8(content@), r matches Ok(k) ==> k.class() == recon_class(content@)
    { unimplemented!() }
    #[verifier::external_body]
    pub fn into_bytes(self) -> (r: Bytes)
        ensures is_utf8(r@), recon_class(r@) == self.class()
    { unimplemented!() }
}
impl Clone for ReconKey { #[verifier::external_body] fn clone(&self) -> (r: Self) ensures r == *self { unimplemented!() } }
impl PartialEq for ReconKey { #[verifier::external_body] fn eq(&self, other: &Self) -> (r: bool) ensures r == (self.class() == other.class()) { unimplemented!() } }
impl Eq for ReconKey {}
impl std::hash::Hash for ReconKey { #[verifier::external_body] fn hash<H: std::hash::Hasher>(&self, state: &mut H) { unimplemented!() } }
// keys are identified with their class ...
pub axiom fn axiom_recon_key_identity(a: ReconKey, b: ReconKey) ensures (a == b) == (a.class() == b.class());
// ... and ReconKey's Eq/Hash are lawful for that identity (this is the C15 assumption)
pub axiom fn axiom_recon_key_model() ensures vstd::std_specs::hash::obeys_key_model::<ReconKey>();
