// Trusted specs for the big-endian u128 / u32 accessors of the `bytes` crate (BufMut::put_u128 / put_u32 on BytesMut,
// Buf::get_u128 / get_u32 on &[u8]), as uninterpreted encodings with the round-trip and length facts as axioms.
pub uninterp spec fn u128_be(v: u128) -> Seq<u8>;
pub uninterp spec fn be_u128(s: Seq<u8>) -> u128;
pub uninterp spec fn u32_be(v: u32) -> Seq<u8>;
pub uninterp spec fn be_u32(s: Seq<u8>) -> u32;
pub axiom fn axiom_u128_be(v: u128) ensures u128_be(v).len() == 16, be_u128(u128_be(v)) == v;
pub axiom fn axiom_u32_be(v: u32) ensures u32_be(v).len() == 4, be_u32(u32_be(v)) == v;
impl BytesMut {
    #[verifier::external_body]
    pub fn put_u128(&mut self, n: u128) ensures final(self)@ == old(self)@ + u128_be(n) { unimplemented!() }
    #[verifier::external_body]
    pub fn put_u32(&mut self, n: u32) ensures final(self)@ == old(self)@ + u32_be(n) { unimplemented!() }
}
trait SliceBufInts {
    spec fn rest2(&self) -> Seq<u8>;
    fn get_u128(&mut self) -> (r: u128)
        requires old(self).rest2().len() >= 16       // panics otherwise
        ensures r == be_u128(old(self).rest2().subrange(0, 16)), final(self).rest2() == old(self).rest2().subrange(16, old(self).rest2().len() as int);
    fn get_u32(&mut self) -> (r: u32)
        requires old(self).rest2().len() >= 4
        ensures r == be_u32(old(self).rest2().subrange(0, 4)), final(self).rest2() == old(self).rest2().subrange(4, old(self).rest2().len() as int);
}
impl<'a> SliceBufInts for &'a [u8] {
    spec fn rest2(&self) -> Seq<u8> { (*self)@ }
    #[verifier::external_body]
    fn get_u128(&mut self) -> (r: u128) { unimplemented!() }
    #[verifier::external_body]
    fn get_u32(&mut self) -> (r: u32) { unimplemented!() }
}
