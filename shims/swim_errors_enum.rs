// Stand-ins for the error payload types, as shims/swim_errors.rs, with AsyncParseError as an enum because the code under
// contract names its variant `UnconsumedInput` (the other variants are folded into one; no contract looks inside an error).
#[verifier::external_body]
struct Text { _p: core::marker::PhantomData<u8> }
impl From<String> for Text { #[verifier::external_body] fn from(s: String) -> Self { unimplemented!() } }
enum AsyncParseError { UnconsumedInput, Other }
// R5: error messages are built with format!; their text is not part of any contract
#[verifier::external_body]
fn fmt_opaque() -> String { unimplemented!() }
