// Trusted stand-in for `bytes::BytesMut` / `bytes::Bytes` (the `bytes` crate is not visible to single-file Verus).
// View = the readable bytes. Every method spec below restates the documented behaviour of the `bytes` crate.
#[verifier::external_body]
pub struct BytesMut { _p: core::marker::PhantomData<u8> }
impl View for BytesMut { type V = Seq<u8>; uninterp spec fn view(&self) -> Seq<u8>; }
#[verifier::external_body]
pub struct Bytes { _p: core::marker::PhantomData<u8> }
impl View for Bytes { type V = Seq<u8>; uninterp spec fn view(&self) -> Seq<u8>; }
impl BytesMut {
    #[verifier::external_body]
    pub fn new() -> (r: BytesMut) ensures r@ == Seq::<u8>::empty() { unimplemented!() }
    #[verifier::external_body]
    pub fn with_capacity(n: usize) -> (r: BytesMut) ensures r@ == Seq::<u8>::empty() { unimplemented!() }
    #[verifier::external_body]
    pub fn clear(&mut self) ensures final(self)@ == Seq::<u8>::empty() { unimplemented!() }
    #[verifier::external_body]
    pub fn is_empty(&self) -> (r: bool) ensures r == (self@.len() == 0) { unimplemented!() }
    #[verifier::external_body]
    pub fn len(&self) -> (r: usize) ensures r == self@.len() { unimplemented!() }
    // Buf
    #[verifier::external_body]
    pub fn remaining(&self) -> (r: usize) ensures r == self@.len() { unimplemented!() }
    #[verifier::external_body]
    pub fn has_remaining(&self) -> (r: bool) ensures r == (self@.len() > 0) { unimplemented!() }
    #[verifier::external_body]
    pub fn advance(&mut self, cnt: usize)
        requires cnt <= old(self)@.len()        // `advance` panics otherwise
        ensures final(self)@ == old(self)@.subrange(cnt as int, old(self)@.len() as int)
    { unimplemented!() }
    #[verifier::external_body]
    pub fn extend_from_slice(&mut self, extend: &[u8])
        ensures final(self)@ == old(self)@ + extend@
    { unimplemented!() }
    #[verifier::external_body]
    pub fn reserve(&mut self, additional: usize) ensures final(self)@ == old(self)@ { unimplemented!() }
    #[verifier::external_body]
    pub fn capacity(&self) -> (r: usize) ensures r >= self@.len() { unimplemented!() }
    #[verifier::external_body]
    pub fn truncate(&mut self, len: usize)
        ensures final(self)@ == (if len <= old(self)@.len() { old(self)@.subrange(0, len as int) } else { old(self)@ })
    { unimplemented!() }
    #[verifier::external_body]
    pub fn split(&mut self) -> (r: BytesMut)
        ensures r@ == old(self)@, final(self)@ == Seq::<u8>::empty()
    { unimplemented!() }
    #[verifier::external_body]
    pub fn split_to(&mut self, at: usize) -> (r: BytesMut)
        requires at <= old(self)@.len()         // panics otherwise
        ensures r@ == old(self)@.subrange(0, at as int),
                final(self)@ == old(self)@.subrange(at as int, old(self)@.len() as int)
    { unimplemented!() }
    #[verifier::external_body]
    pub fn split_off(&mut self, at: usize) -> (r: BytesMut)
        requires at <= old(self)@.len()         // panics if at > capacity; we demand the stronger at <= len
        ensures final(self)@ == old(self)@.subrange(0, at as int),
                r@ == old(self)@.subrange(at as int, old(self)@.len() as int)
    { unimplemented!() }
    #[verifier::external_body]
    pub fn unsplit(&mut self, other: BytesMut)
        ensures final(self)@ == old(self)@ + other@
    { unimplemented!() }
    #[verifier::external_body]
    pub fn freeze(self) -> (r: Bytes) ensures r@ == self@ { unimplemented!() }
    #[verifier::external_body]
    pub fn as_ref(&self) -> (r: &[u8]) ensures r@ == self@ { unimplemented!() }
    // BufMut
    #[verifier::external_body]
    pub fn put_u8(&mut self, n: u8) ensures final(self)@ == old(self)@.push(n) { unimplemented!() }
    #[verifier::external_body]
    pub fn put_slice(&mut self, src: &[u8]) ensures final(self)@ == old(self)@ + src@ { unimplemented!() }
}
impl core::ops::Index<core::ops::RangeTo<usize>> for BytesMut {
    type Output = [u8];
    #[verifier::external_body]
    fn index(&self, r: core::ops::RangeTo<usize>) -> (o: &[u8])
        ensures r.end <= self@.len() ==> o@ == self@.subrange(0, r.end as int)
    { unimplemented!() }
}
impl vstd::std_specs::core::IndexSpecImpl<core::ops::RangeTo<usize>> for BytesMut {
    open spec fn index_req(&self, r: &core::ops::RangeTo<usize>) -> bool { r.end <= self@.len() }   // slicing panics otherwise
}
impl Default for BytesMut { #[verifier::external_body] fn default() -> (r: Self) ensures r@ == Seq::<u8>::empty() { unimplemented!() } }
// ---- sources for BufMut::put, big-endian integers, Buf::take
pub trait BufSrc { spec fn content(&self) -> Seq<u8>; }
impl BufSrc for Bytes { open spec fn content(&self) -> Seq<u8> { self@ } }
impl BufSrc for BytesMut { open spec fn content(&self) -> Seq<u8> { self@ } }
impl<'a> BufSrc for &'a [u8] { open spec fn content(&self) -> Seq<u8> { (*self)@ } }
// `Buf::take(limit)` on `&mut BytesMut`: the stand-in moves the bytes out when `take` is called instead of when the
// adaptor is drained. This is equivalent because the only consumer in the code under contract is `BufMut::put`, which
// drains its source completely, and the borrow checker forbids observing the buffer in between.
#[verifier::external_body]
pub struct Take { _p: core::marker::PhantomData<u8> }
impl BufSrc for Take { uninterp spec fn content(&self) -> Seq<u8>; }
pub open spec fn min_int(a: int, b: int) -> int { if a <= b { a } else { b } }
pub uninterp spec fn u64_be(v: u64) -> Seq<u8>;
pub uninterp spec fn be_u64(s: Seq<u8>) -> u64;
// big-endian encoding of a u64 is 8 bytes and decodes back to the same number
pub axiom fn axiom_u64_be(v: u64) ensures u64_be(v).len() == 8, be_u64(u64_be(v)) == v;
impl Bytes {
    #[verifier::external_body]
    pub fn len(&self) -> (r: usize) ensures r == self@.len() { unimplemented!() }
    #[verifier::external_body]
    pub fn is_empty(&self) -> (r: bool) ensures r == (self@.len() == 0) { unimplemented!() }
    #[verifier::external_body]
    pub fn as_ref(&self) -> (r: &[u8]) ensures r@ == self@ { unimplemented!() }
}
impl BytesMut {
    #[verifier::external_body]
    pub fn put<T: BufSrc>(&mut self, src: T) ensures final(self)@ == old(self)@ + src.content() { unimplemented!() }
    #[verifier::external_body]
    pub fn put_u64(&mut self, n: u64) ensures final(self)@ == old(self)@ + u64_be(n) { unimplemented!() }
    #[verifier::external_body]
    pub fn get_u64(&mut self) -> (r: u64)
        requires old(self)@.len() >= 8           // panics otherwise
        ensures r == be_u64(old(self)@.subrange(0, 8)), final(self)@ == old(self)@.subrange(8, old(self)@.len() as int)
    { unimplemented!() }
    #[verifier::external_body]
    pub fn take(&mut self, limit: usize) -> (t: Take)
        ensures t.content() == old(self)@.subrange(0, min_int(limit as int, old(self)@.len() as int)),
                final(self)@ == old(self)@.subrange(min_int(limit as int, old(self)@.len() as int), old(self)@.len() as int)
    { unimplemented!() }
}
// a BytesMut's length is a usize
pub axiom fn axiom_bytes_mut_len_bound(b: &BytesMut) ensures b@.len() <= usize::MAX;
impl Clone for BytesMut { #[verifier::external_body] fn clone(&self) -> (r: Self) ensures r@ == self@ { unimplemented!() } }
impl Clone for Bytes { #[verifier::external_body] fn clone(&self) -> (r: Self) ensures r@ == self@ { unimplemented!() } }
