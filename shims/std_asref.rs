// Specification hook for core::convert::AsRef: `as_ref_spec` is what `as_ref()` returns.
#[verifier::external_trait_specification]
#[verifier::external_trait_extension(AsRefSpec via AsRefSpecImpl)]
pub trait ExAsRef<T: core::marker::PointeeSized>: core::marker::PointeeSized {
    type ExternalTraitSpecificationFor: core::convert::AsRef<T>;
    spec fn as_ref_spec(&self) -> &T;
    fn as_ref(&self) -> (r: &T)
        ensures r == self.as_ref_spec();
}
