// Trusted specs for std items vstd does not specify.
pub assume_specification<T> [std::mem::replace] (dest: &mut T, src: T) -> (r: T)
    ensures r == *old(dest), *final(dest) == src;
// "is the value produced by Default::default()" -- uninterpreted; per-type consequences are stated as axioms next to
// the types that derive Default.
pub uninterp spec fn vx_is_default<T>(t: T) -> bool;
pub assume_specification<T: Default> [std::mem::take] (dest: &mut T) -> (r: T)
    ensures r == *old(dest), vx_is_default(*final(dest));
// HashMap::get_mut: the borrowed key's slot (and only that slot) may be rewritten through the returned reference.
pub assume_specification<'a, K: std::cmp::Eq + std::hash::Hash + std::borrow::Borrow<Q>, V, S: std::hash::BuildHasher, A: std::alloc::Allocator, Q: std::hash::Hash + std::cmp::Eq + ?Sized> [std::collections::HashMap::<K, V, S, A>::get_mut] (m: &'a mut std::collections::HashMap<K, V, S, A>, k: &Q) -> (r: Option<&'a mut V>)
    ensures
        !contains_borrowed_key(old(m)@, k) ==> r.is_none() && final(m)@ == old(m)@,
        contains_borrowed_key(old(m)@, k) ==> r.is_some() && maps_borrowed_key_to_value(old(m)@, k, *r.unwrap())
            && maps_borrowed_key_to_value(final(m)@, k, *final(r.unwrap()))
            && exists|rm: Map<K, V>| #[trigger] borrowed_key_removed(old(m)@, rm, k) && borrowed_key_removed(final(m)@, rm, k);
pub proof fn lemma_get_mut_same_key<K, V>(o: Map<K, V>, n: Map<K, V>, k: K, v: V)
    requires o.contains_key(k), n.contains_key(k), n[k] == v, o.remove(k) == n.remove(k),
    ensures n == o.insert(k, v)
{
    let om = o.remove(k);
    let nm = n.remove(k);
    assert forall|kk: K| n.dom().contains(kk) == o.insert(k, v).dom().contains(kk) by {
        if kk != k {
            assert(om.dom().contains(kk) == o.dom().contains(kk));
            assert(nm.dom().contains(kk) == n.dom().contains(kk));
        }
    }
    assert forall|kk: K| n.dom().contains(kk) implies n[kk] == o.insert(k, v)[kk] by {
        if kk != k {
            assert(om.dom().contains(kk));
            assert(om[kk] == o[kk]);
            assert(nm[kk] == n[kk]);
        }
    }
    assert(n =~= o.insert(k, v));
}
// Rewrite R12 target: `m.entry(k).or_default()` (std: "Ensures a value is in the entry by inserting the default value
// if empty, and returns a mutable reference to the value in the entry").
#[verifier::external_body]
pub fn vx_entry_or_default<'a, K: std::cmp::Eq + std::hash::Hash, V: Default>(m: &'a mut std::collections::HashMap<K, V>, k: K) -> (r: &'a mut V)
    ensures
        old(m)@.contains_key(k) ==> *r == old(m)@[k],
        !old(m)@.contains_key(k) ==> vx_is_default(*r),
        final(m)@ == old(m)@.insert(k, *final(r)),
{ m.entry(k).or_default() }
// Rewrite R24 targets: `if let Entry::Occupied(mut e) = m.entry(k)` holds exactly when k is present (std: "An occupied
// entry"); OccupiedEntry::get_mut / get ("Gets a (mutable) reference to the value in the entry") and remove ("Takes the
// value out of the entry, and returns it") written against the map itself.
#[verifier::external_body]
pub fn vx_occupied_get_mut<'a, K: std::cmp::Eq + std::hash::Hash, V>(m: &'a mut std::collections::HashMap<K, V>, k: &K) -> (r: &'a mut V)
    requires old(m)@.contains_key(*k),
    ensures *r == old(m)@[*k], final(m)@ == old(m)@.insert(*k, *final(r)),
{ m.get_mut(k).unwrap() }
#[verifier::external_body]
pub fn vx_occupied_get<'a, K: std::cmp::Eq + std::hash::Hash, V>(m: &'a std::collections::HashMap<K, V>, k: &K) -> (r: &'a V)
    requires m@.contains_key(*k),
    ensures *r == m@[*k],
{ m.get(k).unwrap() }
#[verifier::external_body]
pub fn vx_occupied_remove<K: std::cmp::Eq + std::hash::Hash, V>(m: &mut std::collections::HashMap<K, V>, k: &K) -> (r: V)
    requires old(m)@.contains_key(*k),
    ensures r == old(m)@[*k], final(m)@ == old(m)@.remove(*k),
{ m.remove(k).unwrap() }
// Rewrite R26 target: the elements of a HashSet taken by value, each exactly once, in an unspecified order (what
// `for x in set` iterates over: std "An owning iterator over the items of a HashSet ... visiting all elements in arbitrary order").
#[verifier::external_body]
pub fn vx_set_into_vec<T: std::cmp::Eq + std::hash::Hash>(s: std::collections::HashSet<T>) -> (r: Vec<T>)
    ensures r@.no_duplicates(), forall|x: T| r@.contains(x) == s@.contains(x),
{ s.into_iter().collect() }
