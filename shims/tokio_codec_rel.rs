// Trusted stand-ins for tokio_util::codec::{Encoder, Decoder} (same method names and signatures) for GENERIC WRAPPER codecs:
// in addition to the hooks of shims/tokio_codec.rs, a decoder carries an abstract relation `dec_rel` describing ONE call of
// `decode` (decoder before, input before, decoder after, input after, result). An inner decoder's relation is left abstract;
// a wrapper states its own relation in terms of the inner one, so that "the wrapper hands exactly these bytes to the inner
// decoder and returns exactly its result" is a proof obligation of the wrapper's real code.
trait Encoder<Item> {
    type Error;
    spec fn enc(item: Item) -> Seq<u8>;
    spec fn enc_ok(item: Item) -> bool;
    fn encode(&mut self, item: Item, dst: &mut BytesMut) -> (r: Result<(), Self::Error>)
        requires Self::enc_ok(item),
        ensures r is Ok ==> final(dst)@ == old(dst)@ + Self::enc(item),
                r is Err ==> old(dst)@.is_prefix_of(final(dst)@);       // an encoder only appends
}
trait Decoder: Sized {
    type Item;
    type Error;
    spec fn dec_pre(&self, src: Seq<u8>) -> bool;
    spec fn dec_rel(pre: Self, src: Seq<u8>, post: Self, rest: Seq<u8>, r: Result<Option<Self::Item>, Self::Error>) -> bool;
    fn decode(&mut self, src: &mut BytesMut) -> (r: Result<Option<Self::Item>, Self::Error>)
        requires old(self).dec_pre(old(src)@),
        ensures Self::dec_rel(*old(self), old(src)@, *final(self), final(src)@, r);
}
impl BytesMut {
    #[verifier::external_body]
    pub fn get_u128(&mut self) -> (r: u128)
        requires old(self)@.len() >= 16           // panics otherwise
        ensures r == be_u128(old(self)@.subrange(0, 16)), final(self)@ == old(self)@.subrange(16, old(self)@.len() as int)
    { unimplemented!() }
    #[verifier::external_body]
    pub fn get_u8(&mut self) -> (r: u8)
        requires old(self)@.len() >= 1            // panics otherwise
        ensures r == old(self)@[0], final(self)@ == old(self)@.subrange(1, old(self)@.len() as int)
    { unimplemented!() }
}
trait SliceBuf {
    spec fn rest(&self) -> Seq<u8>;
    fn get_u64(&mut self) -> (r: u64)
        requires old(self).rest().len() >= 8
        ensures r == be_u64(old(self).rest().subrange(0, 8)), final(self).rest() == old(self).rest().subrange(8, old(self).rest().len() as int);
    fn get_u8(&mut self) -> (r: u8)
        requires old(self).rest().len() >= 1
        ensures r == old(self).rest()[0], final(self).rest() == old(self).rest().subrange(1, old(self).rest().len() as int);
    fn remaining(&self) -> (r: usize) ensures r == self.rest().len();
}
impl<'a> SliceBuf for &'a [u8] {
    spec fn rest(&self) -> Seq<u8> { (*self)@ }
    #[verifier::external_body]
    fn get_u64(&mut self) -> (r: u64) { unimplemented!() }
    #[verifier::external_body]
    fn get_u8(&mut self) -> (r: u8) { unimplemented!() }
    #[verifier::external_body]
    fn remaining(&self) -> (r: usize) { unimplemented!() }
}
