// Trusted specs for std::collections::VecDeque methods that vstd does not specify.
pub assume_specification<T, A: std::alloc::Allocator> [std::collections::VecDeque::<T, A>::get_mut] (v: &mut std::collections::VecDeque<T, A>, i: usize) -> (r: Option<&mut T>)
    ensures
        i < old(v)@.len() ==> r.is_some(),
        i >= old(v)@.len() ==> r.is_none() && final(v)@ == old(v)@,
        r.is_some() ==> *r.unwrap() == old(v)@[i as int] && final(v)@ == old(v)@.update(i as int, *final(r.unwrap())),
;
pub assume_specification<T, A: std::alloc::Allocator> [std::collections::VecDeque::<T, A>::is_empty] (v: &std::collections::VecDeque<T, A>) -> (r: bool)
    ensures r == (v@.len() == 0);
