// Trusted specs for std::collections::VecDeque methods that vstd does not specify.
pub assume_specification<T, A: std::alloc::Allocator> [std::collections::VecDeque::<T, A>::get_mut] (v: &mut std::collections::VecDeque<T, A>, i: usize) -> (r: Option<&mut T>)
    ensures
        i < old(v)@.len() ==> r.is_some(),
        i >= old(v)@.len() ==> r.is_none() && final(v)@ == old(v)@,
        r.is_some() ==> *r.unwrap() == old(v)@[i as int] && final(v)@ == old(v)@.update(i as int, *final(r.unwrap())),
;
pub assume_specification<T, A: std::alloc::Allocator> [std::collections::VecDeque::<T, A>::is_empty] (v: &std::collections::VecDeque<T, A>) -> (r: bool)
    ensures r == (v@.len() == 0);
// Rewrite R28 target: `q.iter().position(|x| x == k)` -- the index of the FIRST element equal to k (std: "Searches for an element
// in an iterator, returning its index"). The element type's `==` is taken to agree with spec equality (key model).
#[verifier::external_body]
pub fn vx_position<T: std::cmp::PartialEq>(q: &std::collections::VecDeque<T>, k: &T) -> (r: Option<usize>)
    ensures
        r matches Some(i) ==> i < q@.len() && q@[i as int] == *k && forall|j: int| 0 <= j < i ==> q@[j] != *k,
        r is None ==> forall|j: int| 0 <= j < q@.len() ==> q@[j] != *k,
{ q.iter().position(|x| x == k) }
