// std::mem::take: returns the old value and leaves T::default() behind (documented behaviour of core::mem::take)
pub assume_specification<T: std::default::Default>[std::mem::take::<T>](d: &mut T) -> (r: T)
    ensures r == *old(d), T::default.ensures((), *final(d));
