// Trusted specs for std::task::{Waker, Context, Poll}. A waker is identified by an abstract id; cloning keeps it.
#[verifier::external_type_specification]
#[verifier::external_body]
pub struct ExWaker(std::task::Waker);
#[verifier::external_type_specification]
#[verifier::external_body]
pub struct ExContext<'a>(std::task::Context<'a>);
#[verifier::external_type_specification]
#[verifier::reject_recursive_types(T)]
pub struct ExPoll<T>(core::task::Poll<T>);
pub uninterp spec fn waker_id(w: std::task::Waker) -> int;
pub uninterp spec fn cx_waker_id(cx: std::task::Context) -> int;
pub assume_specification<'a, 'b> [std::task::Context::<'a>::waker] (cx: &'b std::task::Context<'a>) -> (w: &'a std::task::Waker)
    ensures waker_id(*w) == cx_waker_id(*cx);
pub assume_specification [<std::task::Waker as Clone>::clone] (w: &std::task::Waker) -> (r: std::task::Waker)
    ensures waker_id(r) == waker_id(*w);
pub assume_specification [std::task::Waker::wake] (w: std::task::Waker);
