// Trusted stand-in for std::io::Write (only write_all is used) and for integer_encoding::FixedInt::encode_fixed_light
// (which is `to_le_bytes`). `out()` is everything written so far.
trait Write {
    spec fn out(&self) -> Seq<u8>;
    // writers that cannot fail (a Vec); for the others a failed write promises nothing
    spec fn infallible() -> bool;
    fn write_all(&mut self, buf: &[u8]) -> (r: Result<(), std::io::Error>)
        ensures r is Ok ==> final(self).out() == old(self).out() + buf@, Self::infallible() ==> r is Ok;
}
impl Write for Vec<u8> {
    spec fn out(&self) -> Seq<u8> { self@ }
    spec fn infallible() -> bool { true }
    #[verifier::external_body]
    fn write_all(&mut self, buf: &[u8]) -> (r: Result<(), std::io::Error>)
    { unimplemented!() }
}
#[verifier::external_type_specification]
#[verifier::external_body]
pub struct ExIoError2(std::io::Error);
// little-endian bytes of a u64 (uninterpreted, 8 bytes, injective)
pub uninterp spec fn u64_le(v: u64) -> Seq<u8>;
pub axiom fn axiom_u64_le(a: u64, b: u64) ensures u64_le(a).len() == 8, u64_le(b).len() == 8, (u64_le(a) == u64_le(b)) == (a == b);
trait FixedInt { fn encode_fixed_light(self) -> [u8; 8]; }
impl FixedInt for u64 {
    #[verifier::external_body]
    fn encode_fixed_light(self) -> (r: [u8; 8]) ensures r@ == u64_le(self) { unimplemented!() }
}
