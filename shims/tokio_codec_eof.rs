// Trusted stand-ins for tokio_util::codec::{Encoder, Decoder} for code that DELEGATES A BOUNDED PART of its input to an inner
// decoder (swimos_encoding::consume_bounded and its users): `decode` and `decode_eof`, each described by the abstract relation
// `dec_rel` (with a flag telling which one was called). ASSUMPTION stated here once: a decoder only consumes from the FRONT of
// the buffer it is given (what is left is a suffix of what it was given) -- the contract of tokio's `Decoder`.
spec fn is_suffix(a: Seq<u8>, b: Seq<u8>) -> bool { a.len() <= b.len() && a == b.subrange(b.len() - a.len(), b.len() as int) }
trait Encoder<Item> {
    type Error;
    spec fn enc(item: Item) -> Seq<u8>;
    spec fn enc_ok(item: Item) -> bool;
    fn encode(&mut self, item: Item, dst: &mut BytesMut) -> (r: Result<(), Self::Error>)
        requires Self::enc_ok(item),
        ensures r is Ok ==> final(dst)@ == old(dst)@ + Self::enc(item);
}
trait Decoder: Sized {
    type Item;
    type Error;
    spec fn dec_pre(&self, src: Seq<u8>) -> bool;
    spec fn dec_rel(pre: Self, eof: bool, src: Seq<u8>, post: Self, rest: Seq<u8>, r: Result<Option<Self::Item>, Self::Error>) -> bool;
    fn decode(&mut self, src: &mut BytesMut) -> (r: Result<Option<Self::Item>, Self::Error>)
        requires old(self).dec_pre(old(src)@),
        ensures Self::dec_rel(*old(self), false, old(src)@, *final(self), final(src)@, r), is_suffix(final(src)@, old(src)@);
    fn decode_eof(&mut self, src: &mut BytesMut) -> (r: Result<Option<Self::Item>, Self::Error>)
        requires old(self).dec_pre(old(src)@),
        ensures Self::dec_rel(*old(self), true, old(src)@, *final(self), final(src)@, r), is_suffix(final(src)@, old(src)@);
}
impl BytesMut {
    #[verifier::external_body]
    pub fn get_u8(&mut self) -> (r: u8)
        requires old(self)@.len() >= 1            // panics otherwise
        ensures r == old(self)@[0], final(self)@ == old(self)@.subrange(1, old(self)@.len() as int)
    { unimplemented!() }
}
// usize::min
#[verifier::external_body]
fn vx_min(a: usize, b: usize) -> (r: usize) ensures r == (if a <= b { a } else { b }) { unimplemented!() }
// `Buf for &[u8]`: reading advances the slice
trait SliceBuf {
    spec fn rest(&self) -> Seq<u8>;
    fn get_u64(&mut self) -> (r: u64)
        requires old(self).rest().len() >= 8
        ensures r == be_u64(old(self).rest().subrange(0, 8)), final(self).rest() == old(self).rest().subrange(8, old(self).rest().len() as int);
    fn get_u8(&mut self) -> (r: u8)
        requires old(self).rest().len() >= 1
        ensures r == old(self).rest()[0], final(self).rest() == old(self).rest().subrange(1, old(self).rest().len() as int);
}
impl<'a> SliceBuf for &'a [u8] {
    spec fn rest(&self) -> Seq<u8> { (*self)@ }
    #[verifier::external_body]
    fn get_u64(&mut self) -> (r: u64) { unimplemented!() }
    #[verifier::external_body]
    fn get_u8(&mut self) -> (r: u8) { unimplemented!() }
}
// bool::then_some (documented behaviour)
pub assume_specification<T>[bool::then_some](b: bool, t: T) -> (r: Option<T>)
    ensures r == (if b { Some(t) } else { None::<T> });
