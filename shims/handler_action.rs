// Trusted stand-ins for swimos_agent::event_handler::{HandlerAction, HandlerTrans, ContextualTrans, ActionContext, EventHandlerError},
// swimos_agent::AgentMetadata and std::iter::Iterator, as the sequencing combinators use them (unit handler_seq).
// ---- stand-ins for what a step is handed (opaque to the combinators, which only pass them on)
// ActionContext: everything a leaf handler does to the agent (lane changes through the context, futures suspended, commands
// sent) is abstracted as a ghost log of effects carried by the action context; a combinator's own code never touches it.
#[verifier::external_body]
#[verifier::reject_recursive_types(Context)]
struct ActionContext<'a, Context> { _p: core::marker::PhantomData<&'a Context> }
struct Eff { id: int }
impl<'a, Context> ActionContext<'a, Context> { uninterp spec fn log(&self) -> Seq<Eff>; }
#[derive(Clone, Copy)]
struct AgentMetadata<'a> { _p: &'a u8 }
// payloads of EventHandlerError variants (never inspected here)
struct AsyncParseError;
struct AgentRuntimeError;
struct DowncastError;
struct DynamicRegistrationError;
struct CommanderRegistrationError;
struct BoxedError;
// EventHandlerError: the real enum's variants, with `Box<dyn Error + Send>` (refused by the installed Verus: dyn with two
// traits) replaced by an opaque payload. The combinators construct only SteppedAfterComplete and pass every other error on.
enum EventHandlerError {
    SteppedAfterComplete,
    BadCommand(AsyncParseError),
    IncompleteCommand,
    RuntimeError(AgentRuntimeError),
    BadJoinLifecycle(DowncastError),
    DemandCueUndefined,
    HttpGetUndefined,
    LaneNotFound(String),
    FailedLaneRegistration(DynamicRegistrationError),
    FailedCommanderRegistration(CommanderRegistrationError),
    EffectError(BoxedError),
    StopInstructed,
}
// ---- the abstract handler: ONE call of `step` = the relation (handler before, effects before, handler after, effects
// after, result). Same method name and signature as swimos_agent::event_handler::HandlerAction (describe() is formatting only).
trait HandlerAction<Context>: Sized {
    type Completion;
    spec fn step_rel(pre: Self, e0: Seq<Eff>, post: Self, e1: Seq<Eff>, r: StepResult<Self::Completion>) -> bool;
    fn step(&mut self, action_context: &mut ActionContext<Context>, meta: AgentMetadata, context: &Context) -> (r: StepResult<Self::Completion>)
        ensures Self::step_rel(*old(self), old(action_context).log(), *final(self), final(action_context).log(), r);
}
trait EventHandler<Context>: HandlerAction<Context, Completion = ()> {}
impl<Context, H> EventHandler<Context> for H where H: HandlerAction<Context, Completion = ()> {}
// HandlerTrans / ContextualTrans (named FnOnce): one application = a relation (closures may be effectful)
trait HandlerTrans<In>: Sized {
    type Out;
    spec fn trans_rel(self, input: In, out: Self::Out) -> bool;
    fn transform(self, input: In) -> (r: Self::Out) ensures self.trans_rel(input, r);
}
trait ContextualTrans<Context, In>: Sized {
    type Out;
    spec fn ctrans_rel(self, input: In, out: Self::Out) -> bool;
    fn transform(self, context: &Context, input: In) -> (r: Self::Out) ensures self.ctrans_rel(input, r);
}
// std::iter::Iterator as the combinators use it (shadows the std trait in this file): one call of `next` = a relation
trait Iterator: Sized {
    type Item;
    spec fn next_rel(pre: Self, post: Self, r: Option<Self::Item>) -> bool;
    fn next(&mut self) -> (r: Option<Self::Item>) ensures Self::next_rel(*old(self), *final(self), r);
}
