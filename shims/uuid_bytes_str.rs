// Trusted stand-ins for uuid::Uuid (a 128-bit value) and swimos_utilities::encoding::BytesStr (bytes known to be UTF-8).
#[verifier::external_body]
#[derive(Clone, Copy)]
pub struct Uuid { _p: core::marker::PhantomData<u8> }
impl Uuid {
    pub uninterp spec fn bits(&self) -> u128;
    #[verifier::external_body]
    pub fn from_u128(v: u128) -> (r: Uuid) ensures r.bits() == v { unimplemented!() }
    #[verifier::external_body]
    pub fn as_u128(&self) -> (r: u128) ensures r == self.bits() { unimplemented!() }
}
// a Uuid IS its 128 bits
pub axiom fn axiom_uuid_bits(a: Uuid, b: Uuid) ensures a.bits() == b.bits() ==> a == b;
#[verifier::external_body]
pub struct BytesStr { _p: core::marker::PhantomData<u8> }
impl View for BytesStr { type V = Seq<u8>; uninterp spec fn view(&self) -> Seq<u8>; }
impl BytesStr {
    #[verifier::external_body]
    pub fn try_from(b: Bytes) -> (r: Result<BytesStr, std::str::Utf8Error>)
        ensures r is Ok == is_utf8(b@), r matches Ok(s) ==> s@ == b@
    { unimplemented!() }
}
// the bytes of a str are valid UTF-8
pub axiom fn axiom_str_is_utf8(s: &str) ensures is_utf8(s.spec_bytes());
