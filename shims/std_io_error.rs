// Trusted specs for std::io::{Error, ErrorKind}: opaque values; only the kind an Error was built from is tracked.
#[verifier::external_type_specification]
#[verifier::external_body]
pub struct ExIoError(std::io::Error);
#[verifier::external_type_specification]
pub struct ExIoErrorKind(std::io::ErrorKind);
pub uninterp spec fn io_error_kind(e: std::io::Error) -> std::io::ErrorKind;
pub assume_specification [<std::io::Error as From<std::io::ErrorKind>>::from] (k: std::io::ErrorKind) -> (e: std::io::Error)
    ensures io_error_kind(e) == k;
