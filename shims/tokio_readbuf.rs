// Trusted stand-in for tokio::io::ReadBuf: `filled` is what has been put so far, `room` what may still be put.
#[verifier::external_body]
pub struct ReadBuf<'a> { _p: core::marker::PhantomData<&'a mut u8> }
impl<'a> ReadBuf<'a> {
    pub uninterp spec fn filled(&self) -> Seq<u8>;
    pub uninterp spec fn room(&self) -> nat;
    #[verifier::external_body]
    pub fn remaining(&self) -> (r: usize) ensures r == self.room() { unimplemented!() }
    #[verifier::external_body]
    pub fn put_slice(&mut self, buf: &[u8])
        requires buf@.len() <= old(self).room()      // put_slice panics otherwise
        ensures final(self).filled() == old(self).filled() + buf@,
                final(self).room() == old(self).room() - buf@.len()
    { unimplemented!() }
}
