// Stand-ins for the error payload types (only their existence matters to the codecs).
#[verifier::external_body]
struct Text { _p: core::marker::PhantomData<u8> }
impl From<String> for Text { #[verifier::external_body] fn from(s: String) -> Self { unimplemented!() } }
#[verifier::external_body]
struct AsyncParseError { _p: core::marker::PhantomData<u8> }
// R5: error messages are built with format!; their text is not part of any contract
#[verifier::external_body]
fn fmt_opaque() -> String { unimplemented!() }
