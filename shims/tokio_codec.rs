// Trusted stand-ins for tokio_util::codec::{Encoder, Decoder} (same method names and signatures), extended with
// spec-only hooks so that generic wrappers can state their contracts in terms of the inner codec's.
trait Encoder<Item> {
    type Error;
    // the bytes one item is encoded to
    spec fn enc(item: Item) -> Seq<u8>;
    // items the encoder accepts (e.g. payloads whose length fits the length field)
    spec fn enc_ok(item: Item) -> bool;
    fn encode(&mut self, item: Item, dst: &mut BytesMut) -> (r: Result<(), Self::Error>)
        requires Self::enc_ok(item),
        ensures r is Ok ==> final(dst)@ == old(dst)@ + Self::enc(item);
}
trait Decoder {
    type Item;
    type Error;
    // inputs on which the decoder is required not to panic (see DESIGN.md F12: absurd length fields are excluded)
    spec fn dec_pre(&self, src: Seq<u8>) -> bool;
    fn decode(&mut self, src: &mut BytesMut) -> (r: Result<Option<Self::Item>, Self::Error>)
        requires old(self).dec_pre(old(src)@);
}
// `Buf for &[u8]`: reading advances the slice
trait SliceBuf {
    spec fn rest(&self) -> Seq<u8>;
    fn get_u64(&mut self) -> (r: u64)
        requires old(self).rest().len() >= 8
        ensures r == be_u64(old(self).rest().subrange(0, 8)), final(self).rest() == old(self).rest().subrange(8, old(self).rest().len() as int);
    fn get_u8(&mut self) -> (r: u8)
        requires old(self).rest().len() >= 1
        ensures r == old(self).rest()[0], final(self).rest() == old(self).rest().subrange(1, old(self).rest().len() as int);
    fn remaining(&self) -> (r: usize) ensures r == self.rest().len();
}
impl<'a> SliceBuf for &'a [u8] {
    spec fn rest(&self) -> Seq<u8> { (*self)@ }
    #[verifier::external_body]
    fn get_u64(&mut self) -> (r: u64) { unimplemented!() }
    #[verifier::external_body]
    fn get_u8(&mut self) -> (r: u8) { unimplemented!() }
    #[verifier::external_body]
    fn remaining(&self) -> (r: usize) { unimplemented!() }
}
