// Trusted stand-ins for swim-rust items outside the unit (their own behaviour is not verified here).
// RemoteSender: only the lane label matters to the scheduler; sending is the async writer's business.
#[verifier::external_body]
struct RemoteSender { _p: core::marker::PhantomData<u8> }
impl RemoteSender {
    uninterp spec fn lane(&self) -> Seq<char>;        // label under which the next frame is sent
    uninterp spec fn id(&self) -> int;                // identity of the socket writer
    #[verifier::external_body]
    fn update_lane(&mut self, lane_name: &str)
        ensures final(self).lane() == lane_name@, final(self).id() == old(self).id(), final(self).sent() == old(self).sent()
    { unimplemented!() }
    // ghost log of the frames handed to the socket writer: (lane label, notification with byte contents)
    uninterp spec fn sent(&self) -> Seq<(Seq<char>, Notification<Seq<u8>, Seq<u8>>)>;
    #[verifier::external_body]
    async fn send_notification(&mut self, notification: Notification<&BytesMut, &[u8]>) -> (r: Result<(), std::io::Error>)
        ensures
            final(self).lane() == old(self).lane(), final(self).id() == old(self).id(),
            r is Ok ==> final(self).sent() == old(self).sent().push((old(self).lane(), note_view(notification))),
    { unimplemented!() }
}
spec fn note_view(n: Notification<&BytesMut, &[u8]>) -> Notification<Seq<u8>, Seq<u8>> {
    match n {
        Notification::Linked => Notification::Linked,
        Notification::Synced => Notification::Synced,
        Notification::Unlinked(Some(b)) => Notification::Unlinked(Some(b@)),
        Notification::Unlinked(None) => Notification::Unlinked(None),
        Notification::Event(b) => Notification::Event(b@),
    }
}
// LaneRegistry: lane ids -> names; ids are never removed.
#[verifier::external_body]
pub struct LaneRegistry { _p: core::marker::PhantomData<u8> }
impl LaneRegistry {
    pub uninterp spec fn names(&self) -> Map<u64, Seq<char>>;
    #[verifier::external_body]
    pub fn name_for(&self, id: u64) -> (r: Option<&str>)
        ensures r is Some == self.names().contains_key(id), r is Some ==> r.unwrap()@ == self.names()[id]
    { unimplemented!() }
}
#[verifier::external_body]
pub struct Text { _p: core::marker::PhantomData<u8> }
impl Text {
    pub uninterp spec fn chars(&self) -> Seq<char>;
    #[verifier::external_body]
    pub fn as_str(&self) -> (r: &str) ensures r@ == self.chars() { unimplemented!() }
    pub uninterp spec fn utf8(&self) -> Seq<u8>;
    #[verifier::external_body]
    pub fn as_bytes(&self) -> (r: &[u8]) ensures r@ == self.utf8() { unimplemented!() }
}
#[verifier::external_body]
pub struct CompletionSender { _p: core::marker::PhantomData<u8> }

// UTF-8 validity of a byte string (uninterpreted; only used to decide the error path)
#[verifier::external_type_specification]
#[verifier::external_body]
pub struct ExUtf8Error(std::str::Utf8Error);
pub uninterp spec fn is_utf8(s: Seq<u8>) -> bool;
pub assume_specification<'a> [std::str::from_utf8] (v: &'a [u8]) -> (r: Result<&'a str, std::str::Utf8Error>)
    ensures r is Ok == is_utf8(v@);
// Recon encoding of a map operation: an uninterpreted function of the operation (only framing is used here).
#[derive(Default)]
struct MapOperationReconEncoder;
uninterp spec fn recon_enc(op: MapOperation<Seq<u8>, Seq<u8>>) -> Seq<u8>;
spec fn op_view_mm(op: MapOperation<BytesMut, BytesMut>) -> MapOperation<Seq<u8>, Seq<u8>> {
    match op {
        MapOperation::Update { key, value } => MapOperation::Update { key: key@, value: value@ },
        MapOperation::Remove { key } => MapOperation::Remove { key: key@ },
        MapOperation::Clear => MapOperation::Clear,
    }
}
spec fn op_view_bm(op: MapOperation<Bytes, BytesMut>) -> MapOperation<Seq<u8>, Seq<u8>> {
    match op {
        MapOperation::Update { key, value } => MapOperation::Update { key: key@, value: value@ },
        MapOperation::Remove { key } => MapOperation::Remove { key: key@ },
        MapOperation::Clear => MapOperation::Clear,
    }
}
#[derive(Debug)]
pub struct EncodeError;
impl MapOperationReconEncoder {
    #[verifier::external_body]
    fn encode<O: OpView>(&mut self, op: O, dst: &mut BytesMut) -> (r: Result<(), EncodeError>)
        ensures r is Ok, final(dst)@ == old(dst)@ + recon_enc(op.opv())
    { unimplemented!() }
}
// MapOperationQueue (runtime backpressure queue for map lanes): stand-in whose contract is the one proved for the real
// queue in unit `map_queue` (view: pending operations, oldest first).
trait OpView { spec fn opv(&self) -> MapOperation<Seq<u8>, Seq<u8>>; }
impl OpView for MapOperation<BytesMut, BytesMut> { spec fn opv(&self) -> MapOperation<Seq<u8>, Seq<u8>> { op_view_mm(*self) } }
impl OpView for MapOperation<Bytes, BytesMut> { spec fn opv(&self) -> MapOperation<Seq<u8>, Seq<u8>> { op_view_bm(*self) } }
#[verifier::external_body]
struct MapOperationQueue { _p: core::marker::PhantomData<u8> }
impl MapOperationQueue {
    uninterp spec fn ops(&self) -> Seq<MapOperation<Seq<u8>, Seq<u8>>>;
    // `after` is `before` with `op` pushed (coalescing by key). A RELATION, not a function: which of two equivalent key
    // texts the real queue keeps depends on buffer capacities. What the relation means is proved for the real queue in unit
    // `map_queue` (over keys identified up to Recon equality): after == coalesce(before, op), and replaying `after` gives the
    // same map as replaying `before` and then `op`. Nothing in this unit depends on its definition.
    uninterp spec fn coalesced(before: Seq<MapOperation<Seq<u8>, Seq<u8>>>, op: MapOperation<Seq<u8>, Seq<u8>>, after: Seq<MapOperation<Seq<u8>, Seq<u8>>>) -> bool;
    #[verifier::external_body]
    fn push(&mut self, operation: MapOperation<BytesMut, BytesMut>) -> (r: Result<(), InvalidKey>)
        ensures r is Ok ==> Self::coalesced(old(self).ops(), op_view_mm(operation), final(self).ops()) && final(self).ops().len() > 0,
                r is Err ==> final(self).ops() == old(self).ops(),
    { unimplemented!() }
    #[verifier::external_body]
    fn pop(&mut self) -> (r: Option<MapOperation<Bytes, BytesMut>>)
        ensures old(self).ops().len() == 0 ==> r is None && final(self).ops() == old(self).ops(),
                old(self).ops().len() > 0 ==> r is Some && op_view_bm(r.unwrap()) == old(self).ops()[0]
                    && final(self).ops() == old(self).ops().subrange(1, old(self).ops().len() as int),
    { unimplemented!() }
    #[verifier::external_body]
    fn is_empty(&self) -> (r: bool) ensures r == (self.ops().len() == 0) { unimplemented!() }
}
impl Default for MapOperationQueue { #[verifier::external_body] fn default() -> (r: Self) { unimplemented!() } }
// MapOperationQueue::default() is new(): an empty queue
axiom fn axiom_default_map_queue(q: MapOperationQueue) requires vx_is_default(q) ensures q.ops().len() == 0;
