// UTF-8 validity of a byte string (uninterpreted; only used to decide error paths) and std's Utf8Error (opaque).
#[verifier::external_type_specification]
#[verifier::external_body]
pub struct ExUtf8Error(std::str::Utf8Error);
pub uninterp spec fn is_utf8(s: Seq<u8>) -> bool;
