// Trusted specs for the big-endian u16 accessors of the `bytes` crate (BufMut::put_u16 / Buf::get_u16 on BytesMut).
pub uninterp spec fn u16_be(v: u16) -> Seq<u8>;
pub uninterp spec fn be_u16(s: Seq<u8>) -> u16;
pub axiom fn axiom_u16_be(v: u16) ensures u16_be(v).len() == 2, be_u16(u16_be(v)) == v;
impl BytesMut {
    #[verifier::external_body]
    pub fn put_u16(&mut self, n: u16) ensures final(self)@ == old(self)@ + u16_be(n) { unimplemented!() }
    #[verifier::external_body]
    pub fn get_u16(&mut self) -> (r: u16)
        requires old(self)@.len() >= 2            // panics otherwise
        ensures r == be_u16(old(self)@.subrange(0, 2)), final(self)@ == old(self)@.subrange(2, old(self)@.len() as int)
    { unimplemented!() }
}
