#!/usr/bin/env python3
"""Regenerate /verif/MANIFEST.json from lib/registry.py (claimed checks) and the static not-applicable reasons."""
import json, os, sys
V = os.path.dirname(os.path.dirname(os.path.abspath(__file__)))
sys.path.insert(0, os.path.join(V, "lib"))
import registry

NA = {
 "C09": "nom-combinator parser, visitor-based printers and incremental decoder: no function boundary admits a contract that Verus (no str/closure/iterator-adapter reasoning) or Kani (unbounded recursion over strings) can discharge; per-char escape facts would not decide the property (DESIGN.md section 5)",
 "C11": "writer side is string building, reader side is the nom header matcher plus async socket/multiplexer tasks; schedules and string parsing are outside contract-based verification with the installed tools (DESIGN.md section 5)",
 "C15": "comparator and hasher run over parser event streams; a contract would need the Recon parser's semantics as its specification, which is out of reach (DESIGN.md section 5)",
 "C16": "quantifies over derive-macro generated recognisers/writers and msgpack trait-object state machines; generated code is not within reach of Verus or Kani contracts (DESIGN.md section 5)",
}
props = [json.loads(l) for l in open(os.path.join(V, "properties.jsonl"))]
m = {
 "version": 1,
 "setup_cmd": "cd /verif/vx && cargo build --release --offline",
 "hooks": {"guard": "swimos_verif",
           "enable": "none needed: checks overlay harness modules into scratch copies of /repo (#[cfg(kani)] mod appended in the copy); /repo itself carries no hook commits",
           "baseline_off_cmd": "cd /repo && (cargo nextest run --workspace --no-fail-fast --test-threads 8 --offline || cargo test --workspace --no-fail-fast --offline)",
           "source_commits": [], "add_only": True},
 "engines": [
   {"name": "vx", "path": "/verif/lib/vxgen.py", "serves_properties": sorted(p for p, P in registry.PROPS.items() if any(c["kind"] == "vx" for c in P["components"])),
    "kind_free_text": "mechanical extraction of real functions (syn byte ranges, logged rewrite rules) + sidecar contracts -> Verus (unbounded deductive proof), path canaries against vacuity"},
   {"name": "kx", "path": "/verif/lib/kxrun.py", "serves_properties": sorted(p for p, P in registry.PROPS.items() if any(c["kind"] == "kx" for c in P["components"])),
    "kind_free_text": "Kani contract harnesses overlaid on the real crate in a scratch copy; complete when loop-free/full-domain, otherwise labelled bounded; counterexamples replayed natively"},
 ],
 "checks": [], "not_applicable": [],
 "notes": "exit 2 = undecided (lost anchor / tool limit / vacuity guard), never reported as a violation; see DESIGN.md",
}
for p in props:
    pid = p["id"]
    if pid in registry.PROPS:
        P = registry.PROPS[pid]
        m["checks"].append({
            "property_id": pid,
            "quick_cmd": f"./check {pid} --tier quick",
            "thorough_cmd": f"./check {pid} --tier thorough",
            "evidence_file": f"/verif/evidence/{pid}.json",
            "replay_cmd_template": f"./check {pid} --replay {{path}}",
            "engine": "+".join(sorted({c["kind"] for c in P["components"]})),
            "level_claimed": {"category": P.get("level", "proof"), "text": P["level_text"], "design_ref": f"DESIGN.md section 3/{pid}"},
            "level_note": P["level_note"],
            "technique": P["technique"],
        })
    else:
        m["not_applicable"].append({"property_id": pid, "reason": NA.get(pid, "not yet built in this revision (planned, see DESIGN.md section 3)")})
json.dump(m, open(os.path.join(V, "MANIFEST.json"), "w"), indent=1)
print("claimed:", [c["property_id"] for c in m["checks"]])
