#!/bin/bash
# usage: tools/confirm_seed.sh <seed-dir> <crate> <demo-test-filter>
# Confirms in a scratch worktree of /repo HEAD: patch applies+compiles, existing tests of <crate> pass with it,
# demo fails with the patch and passes without it. Writes <seed-dir>/confirm.log
S=$1; CRATE=$2; FILTER=$3
W=/tmp/seedcheck/wt-$$; T=/tmp/seedcheck/target
mkdir -p /tmp/seedcheck
git -C /repo worktree add -q --detach $W HEAD || exit 9
L=$S/confirm.log; : > $L
cd $W
res() { echo "$1" | tee -a $L; }
if ! git apply --check $S/patch.diff 2>>$L; then res "RESULT patch_applies=no"; git -C /repo worktree remove --force $W; exit 1; fi
git apply $S/patch.diff
res "RESULT patch_applies=yes"
CARGO_TARGET_DIR=$T cargo test --offline -p $CRATE > $W/existing.log 2>&1
if grep -q "test result: FAILED\|error\[E\|could not compile" $W/existing.log; then res "RESULT existing_tests_with_patch=FAIL"; grep -E "FAILED|^error" $W/existing.log | head -5 >> $L; else res "RESULT existing_tests_with_patch=pass ($(grep -c '^test .* ok' $W/existing.log) ok)"; fi
DEMO=$(ls $S/demo/*.diff 2>/dev/null | head -1)
if [ -z "$DEMO" ]; then res "RESULT demo=missing"; git -C /repo worktree remove --force $W; exit 1; fi
git apply $DEMO 2>>$L || { res "RESULT demo_applies=no"; git -C /repo worktree remove --force $W; exit 1; }
CARGO_TARGET_DIR=$T cargo test --offline -p $CRATE $FILTER > $W/demo_with.log 2>&1
if grep -q "test result: FAILED" $W/demo_with.log; then res "RESULT demo_with_patch=fails(as required)"; else res "RESULT demo_with_patch=DOES-NOT-FAIL"; tail -5 $W/demo_with.log >> $L; fi
git apply -R $S/patch.diff
CARGO_TARGET_DIR=$T cargo test --offline -p $CRATE $FILTER > $W/demo_without.log 2>&1
if grep -q "test result: ok" $W/demo_without.log && ! grep -q "test result: FAILED" $W/demo_without.log && grep -q "[1-9][0-9]* passed" $W/demo_without.log; then res "RESULT demo_without_patch=passes(as required)"; else res "RESULT demo_without_patch=DOES-NOT-PASS"; tail -5 $W/demo_without.log >> $L; fi
cd /; git -C /repo worktree remove --force $W
