#!/bin/bash
# usage: tools/run_seeds.sh [seed-id ...]  -- for each seed: git apply in /repo, run the property's quick check, undo. Records seeded/<id>/detection.json
cd /verif
# By default the patch is applied to a scratch copy of /repo's working tree (so that other work on /repo is not disturbed);
# SEED_IN_REPO=1 applies it to /repo itself (git apply ... ; git checkout -- .) as the brief describes.
if [ -n "${SEED_IN_REPO:-}" ]; then trap 'git -C /repo checkout -- . 2>/dev/null' EXIT; fi
ids="$@"; [ -z "$ids" ] && ids=$(ls seeded)
for id in $ids; do
  prop=${id%%-*}
  if [ -n "${SEED_IN_REPO:-}" ]; then
    [ -n "$(git -C /repo status --porcelain)" ] && { echo "/repo not clean"; exit 9; }
    git -C /repo apply /verif/seeded/$id/patch.diff || { echo "$id: patch does not apply"; continue; }
    out=$(./check $prop --tier quick --no-evidence 2>&1); rc=$?
    git -C /repo checkout -- .
  else
    D=/scratch/seedrun-$$; rsync -a --delete --exclude /target --exclude .git /repo/ $D/
    (cd $D && patch -p1 -s --no-backup-if-mismatch < /verif/seeded/$id/patch.diff) || { echo "$id: patch does not apply"; rm -rf $D; continue; }
    out=$(./check $prop --tier quick --no-evidence --repo $D 2>&1); rc=$?
    rm -rf $D
  fi
  viol=$(echo "$out" | grep -c "^VIOLATION")
  obl=$(echo "$out" | grep "^FAILED-OBLIGATION" | awk '{print $2}' | sort -u | tr '\n' ' ')
  und=$(echo "$out" | grep "^UNDECIDED" | head -3 | tr '\n' ' ')
  python3 - "$id" "$prop" "$rc" "$viol" "$obl" "$und" <<'PY'
import sys, json, time
id, prop, rc, viol, obl, und = sys.argv[1:7]
json.dump({"seed": id, "check": f"./check {prop} --tier quick", "exit_code": int(rc), "detected": rc == "1" and int(viol) > 0,
           "failed_obligations": obl.split(), "undecided": und, "at": time.strftime("%Y-%m-%dT%H:%M:%S")},
          open(f"/verif/seeded/{id}/detection.json", "w"), indent=1)
PY
  echo "$id rc=$rc detected=$([ $rc = 1 ] && echo yes || echo NO) :: $obl $und"
done
