#!/bin/bash
# Runs every claimed check's thorough command on /repo WITHOUT rewriting evidence; prints one summary line per check.
cd /verif
for id in $(python3 -c "import json;print(' '.join(c['property_id'] for c in json.load(open('MANIFEST.json'))['checks']))"); do
  s=$(date +%s)
  out=$(./check $id --tier thorough --no-evidence 2>&1); rc=$?
  echo "$id rc=$rc $(( $(date +%s) - s ))s :: $(echo "$out" | tail -1)"
  echo "$out" | grep -E "^(VIOLATION|UNDECIDED)" | head -3
done
echo ALL-THOROUGH-DONE
