#!/bin/bash
# usage: tools/import_seeds.sh <PROP> <agent-out-dir> <first-number>   -- copies changeN/{patch.diff,notes.md,demo/*} to seeded/<PROP>-<k>
P=$1; OUT=$2; K=$3
for n in 1 2 3; do
  [ -f $OUT/change$n/patch.diff ] || continue
  d=/verif/seeded/$P-$K; mkdir -p $d/demo
  cp $OUT/change$n/patch.diff $d/; cp $OUT/change$n/notes.md $d/ 2>/dev/null
  cp -r $OUT/change$n/demo/* $d/demo/ 2>/dev/null
  tests=$(grep -h '^+.*fn [a-z_0-9]*()' $d/demo/demo.diff 2>/dev/null | sed 's/.*fn \([a-z_0-9]*\)().*/\1/' | tr '\n' ' ')
  files=$(grep -h '^+++ b/' $d/demo/demo.diff 2>/dev/null | sed 's/+++ b\///' | tr '\n' ' ')
  echo "$P-$K tests: $tests | demo files: $files"
  K=$((K+1))
done
