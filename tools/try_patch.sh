#!/bin/bash
# usage: tools/try_patch.sh <patch.diff> <PROP> [extra check args]   -- applies a patch to a scratch copy of /repo and runs a check on it
set -u
P=$1; PROP=$2; shift 2
D=/scratch/seedtest
rsync -a --delete --exclude /target --exclude .git /repo/ $D/
(cd $D && patch -p1 --no-backup-if-mismatch < "$P" >/tmp/patch.out 2>&1) || { echo "PATCH DOES NOT APPLY"; cat /tmp/patch.out; exit 3; }
cd /verif && ./check $PROP --repo $D --no-evidence "$@"
rc=$?
rm -rf $D
exit $rc
