#!/usr/bin/env python3
"""print the seeds-vs-checks markdown table from seeded/*/detection.json + meta.json (pasted into DESIGN.md section 0.6)"""
import glob, json, os
V = os.path.dirname(os.path.dirname(os.path.abspath(__file__)))
print("| seed | what the change does | result of `./check <prop>` (quick) | obligation(s) that failed |")
print("|------|----------------------|-----------------------------------|---------------------------|")
for d in sorted(glob.glob(os.path.join(V, "seeded", "*"))):
    sid = os.path.basename(d)
    try:
        meta = json.load(open(os.path.join(d, "meta.json")))
    except Exception:
        meta = {}
    try:
        det = json.load(open(os.path.join(d, "detection.json")))
    except Exception:
        det = None
    note = ""
    try:
        for l in open(os.path.join(d, "notes.md")):
            l = l.strip()
            if l and not l.startswith("#") and len(l) > 25:
                note = l
                break
    except Exception:
        pass
    what = (meta.get("summary") or note or meta.get("what") or meta.get("description") or "").replace("|", "/").replace("\n", " ")[:170]
    if det is None:
        res, obl = "not run", ""
    else:
        rc = det.get("exit_code")
        res = {0: "MISSED (exit 0)", 1: "caught (exit 1)", 2: "undecided (exit 2)"}.get(rc, str(rc))
        o = det.get("failed_obligations", [])
        obl = ", ".join("`%s`" % x for x in o[:3]) + (" (+%d)" % (len(o) - 3) if len(o) > 3 else "")
        if rc == 2:
            obl = det.get("undecided", "")[:120].replace("|", "/")
    print(f"| {sid} | {what} | {res} | {obl} |")
