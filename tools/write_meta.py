#!/usr/bin/env python3
"""usage: tools/write_meta.py <round> <seed-id>...   -- writes seeded/<id>/meta.json from patch.diff + confirm.log"""
import json, os, re, sys
rnd = int(sys.argv[1])
for sid in sys.argv[2:]:
    d = f"/verif/seeded/{sid}"
    files = re.findall(r"^\+\+\+ b/(.*)$", open(f"{d}/patch.diff").read(), re.M)
    log = open(f"{d}/confirm.log").read() if os.path.exists(f"{d}/confirm.log") else ""
    ok = all(x in log for x in ("patch_applies=yes", "existing_tests_with_patch=pass", "demo_with_patch=fails", "demo_without_patch=passes"))
    meta = {"seed": sid, "property": sid.split("-")[0], "round": rnd, "files": files,
            "produced_by": f"independent sub-agent (round {rnd}) given only the property text and its own worktree",
            "needs_to_manifest": "see notes.md (written by the sub-agent)",
            "confirmed": {"how": "tools/confirm_seed.sh in a scratch worktree of /repo HEAD: git apply patch; cargo test --offline -p <crate> (existing tests pass); apply demo.diff; the demo test fails with the patch and passes without it",
                          "log": "confirm.log", "all_four_checks_passed": ok}}
    json.dump(meta, open(f"{d}/meta.json", "w"), indent=1)
    print(sid, "confirmed" if ok else "NOT CONFIRMED")
