s=open('/verif/bx/swimos_agent_protocol/codecs.rs').read()
b=s.index("struct Outcome {")
c=s.index("const B: [&[u8]; 3]")
d=s.index("// child: runs the robustness variants")
common=s[b:c]
tail=s[d:]
head='''// BOUNDED contract check of the routed request/response frame codecs of swimos_messages (runtime/swimos_messages/src/
// protocol/mod.rs) -- property C10. Same contract and method as bx/swimos_agent_protocol/codecs.rs: exact round trip for every
// 2-chunk (and, for short streams, 3-chunk) cut of every stream of one or two messages; prefixes / tag / small byte corruptions
// give Ok/Err, never a panic or a hang (run in child processes, see there).
use super::*;
use bytes::{Bytes, BytesMut};
use std::fmt::Debug;
use std::panic::{catch_unwind, AssertUnwindSafe};
use tokio_util::codec::{Decoder, Encoder};
use uuid::Uuid;

'''
cases='''const B: [&[u8]; 3] = [b"", b"x", b"@a{1}"];

fn run_all(rep: &mut Report) {
    // (the high-order bytes of the id are zero so that a corrupt tag cannot turn them into a huge length)
    let id = Uuid::from_u128(0x0a0b);
    let paths = [RelativeAddress::new("/n", "l"), RelativeAddress::new("", ""), RelativeAddress::new("/node/%41", "lane")];

    // ---- requests: link / sync / unlink / command(body)
    let mut frames: Vec<Vec<u8>> = vec![];
    for p in &paths {
        frames.push(enc(RawRequestMessageEncoder, RequestMessage::<&str, &[u8]> { origin: id, path: p.clone(), envelope: Operation::Link }));
        frames.push(enc(RawRequestMessageEncoder, RequestMessage::<&str, &[u8]> { origin: id, path: p.clone(), envelope: Operation::Sync }));
        frames.push(enc(RawRequestMessageEncoder, RequestMessage::<&str, &[u8]> { origin: id, path: p.clone(), envelope: Operation::Unlink }));
        for b in B {
            frames.push(enc(RawRequestMessageEncoder, RequestMessage::<&str, &[u8]> { origin: id, path: p.clone(), envelope: Operation::Command(b) }));
        }
    }
    check_codec("RawRequestMessage", true, &frames, &RawRequestMessageDecoder::default,
        &|item: RequestMessage<BytesStr, Bytes>, out: &mut BytesMut| RawRequestMessageEncoder.encode(item, out).is_ok(), rep);

    // ---- responses: linked / synced / unlinked(optional body) / event(body)
    let mut frames: Vec<Vec<u8>> = vec![];
    for p in &paths {
        frames.push(enc(RawResponseMessageEncoder, ResponseMessage::<&str, &[u8], &[u8]> { origin: id, path: p.clone(), envelope: Notification::Linked }));
        frames.push(enc(RawResponseMessageEncoder, ResponseMessage::<&str, &[u8], &[u8]> { origin: id, path: p.clone(), envelope: Notification::Synced }));
        frames.push(enc(RawResponseMessageEncoder, ResponseMessage::<&str, &[u8], &[u8]> { origin: id, path: p.clone(), envelope: Notification::Unlinked(None) }));
        for b in B {
            frames.push(enc(RawResponseMessageEncoder, ResponseMessage::<&str, &[u8], &[u8]> { origin: id, path: p.clone(), envelope: Notification::Event(b) }));
            if !b.is_empty() {
                frames.push(enc(RawResponseMessageEncoder, ResponseMessage::<&str, &[u8], &[u8]> { origin: id, path: p.clone(), envelope: Notification::Unlinked(Some(b)) }));
            }
        }
    }
    check_codec("RawResponseMessage", true, &frames, &RawResponseMessageDecoder::default,
        &|item: ResponseMessage<BytesStr, Bytes, Bytes>, out: &mut BytesMut| RawResponseMessageEncoder.encode(item, out).is_ok(), rep);
}

'''
tail=tail.replace("verif_bx_codecs::codec_robustness_child","verif_bx_messages::codec_robustness_child").replace("verif_bx_codecs_progress_","verif_bx_messages_progress_").replace("BX-SAMPLE 13 codec pairs of swimos_agent_protocol;","BX-SAMPLE RawRequestMessage / RawResponseMessage of swimos_messages;")
open('/verif/bx/swimos_messages/messages.rs','w').write(head+common+cases+tail)
